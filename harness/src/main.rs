//! cgt-probe: library-boundary observation harness for cgt-tool.
//!
//! Reads one JSON case per line on stdin, runs it against the real crates (built from
//! /repo's working tree with the `verif-hooks` feature) inside `catch_unwind`, and prints
//! one JSON observation per line on stdout. All decimals cross the boundary as strings
//! carrying mantissa *and* scale; reports are emitted at full precision, never through the
//! rounding serialiser.

use cgt_core::calculator::calculate;
use cgt_core::parser::parse_file;
use cgt_core::{
    CgtError, Config, Currency, CurrencyAmount, MatchRule, Operation, TaxPeriod, TaxReport,
    Transaction,
};
use cgt_money::{FxCache, RateFile};
use chrono::NaiveDate;
use rust_decimal::Decimal;
use serde_json::{Map, Value, json};
use std::cell::RefCell;
use std::io::{BufRead, Write};
use std::panic::{AssertUnwindSafe, catch_unwind};
use std::str::FromStr;
use std::sync::OnceLock;
use std::time::{Duration, UNIX_EPOCH};

thread_local! {
    static LAST_PANIC: RefCell<Option<Value>> = const { RefCell::new(None) };
}

type R<T> = Result<T, String>;

fn dec(v: &Value) -> R<Decimal> {
    let s = v.as_str().ok_or_else(|| format!("decimal must be a string: {v}"))?;
    Decimal::from_str(s).map_err(|e| format!("bad decimal {s}: {e}"))
}

fn date(v: &Value) -> R<NaiveDate> {
    let s = v.as_str().ok_or_else(|| format!("date must be a string: {v}"))?;
    NaiveDate::parse_from_str(s, "%Y-%m-%d").map_err(|e| format!("bad date {s}: {e}"))
}

fn money(v: &Value) -> R<CurrencyAmount> {
    let arr = v.as_array().ok_or_else(|| format!("money must be [amount, code]: {v}"))?;
    if arr.len() != 2 {
        return Err(format!("money must be [amount, code]: {v}"));
    }
    let amount = dec(&arr[0])?;
    let code = arr[1].as_str().ok_or("currency code must be a string")?;
    let currency = Currency::from_code(code).ok_or_else(|| format!("unknown currency {code}"))?;
    Ok(CurrencyAmount::new(amount, currency))
}

fn field<'a>(v: &'a Value, name: &str) -> R<&'a Value> {
    v.get(name).ok_or_else(|| format!("missing field {name} in {v}"))
}

fn tx_from_wire(v: &Value) -> R<Transaction> {
    let kind = field(v, "kind")?.as_str().ok_or("kind must be a string")?;
    let operation = match kind {
        "BUY" => Operation::Buy {
            amount: dec(field(v, "amount")?)?,
            price: money(field(v, "price")?)?,
            fees: money(field(v, "fees")?)?,
        },
        "SELL" => Operation::Sell {
            amount: dec(field(v, "amount")?)?,
            price: money(field(v, "price")?)?,
            fees: money(field(v, "fees")?)?,
        },
        "DIVIDEND" => Operation::Dividend {
            total_value: money(field(v, "total")?)?,
            tax_paid: money(field(v, "tax")?)?,
        },
        "ACCUMULATION" => Operation::Accumulation {
            amount: dec(field(v, "amount")?)?,
            total_value: money(field(v, "total")?)?,
            tax_paid: money(field(v, "tax")?)?,
        },
        "CAPRETURN" => Operation::CapReturn {
            amount: dec(field(v, "amount")?)?,
            total_value: money(field(v, "total")?)?,
            fees: money(field(v, "fees")?)?,
        },
        "SPLIT" => Operation::Split {
            ratio: dec(field(v, "ratio")?)?,
        },
        "UNSPLIT" => Operation::Unsplit {
            ratio: dec(field(v, "ratio")?)?,
        },
        other => return Err(format!("unknown kind {other}")),
    };
    Ok(Transaction {
        date: date(field(v, "date")?)?,
        ticker: field(v, "ticker")?
            .as_str()
            .ok_or("ticker must be a string")?
            .to_string(),
        operation,
    })
}

fn money_to_wire(m: &CurrencyAmount) -> Value {
    json!([m.amount.to_string(), m.code()])
}

fn tx_to_wire(tx: &Transaction) -> Value {
    let mut o = Map::new();
    o.insert("date".into(), json!(tx.date.to_string()));
    o.insert("ticker".into(), json!(tx.ticker));
    match &tx.operation {
        Operation::Buy {
            amount,
            price,
            fees,
        } => {
            o.insert("kind".into(), json!("BUY"));
            o.insert("amount".into(), json!(amount.to_string()));
            o.insert("price".into(), money_to_wire(price));
            o.insert("fees".into(), money_to_wire(fees));
        }
        Operation::Sell {
            amount,
            price,
            fees,
        } => {
            o.insert("kind".into(), json!("SELL"));
            o.insert("amount".into(), json!(amount.to_string()));
            o.insert("price".into(), money_to_wire(price));
            o.insert("fees".into(), money_to_wire(fees));
        }
        Operation::Dividend {
            total_value,
            tax_paid,
        } => {
            o.insert("kind".into(), json!("DIVIDEND"));
            o.insert("total".into(), money_to_wire(total_value));
            o.insert("tax".into(), money_to_wire(tax_paid));
        }
        Operation::Accumulation {
            amount,
            total_value,
            tax_paid,
        } => {
            o.insert("kind".into(), json!("ACCUMULATION"));
            o.insert("amount".into(), json!(amount.to_string()));
            o.insert("total".into(), money_to_wire(total_value));
            o.insert("tax".into(), money_to_wire(tax_paid));
        }
        Operation::CapReturn {
            amount,
            total_value,
            fees,
        } => {
            o.insert("kind".into(), json!("CAPRETURN"));
            o.insert("amount".into(), json!(amount.to_string()));
            o.insert("total".into(), money_to_wire(total_value));
            o.insert("fees".into(), money_to_wire(fees));
        }
        Operation::Split { ratio } => {
            o.insert("kind".into(), json!("SPLIT"));
            o.insert("ratio".into(), json!(ratio.to_string()));
        }
        Operation::Unsplit { ratio } => {
            o.insert("kind".into(), json!("UNSPLIT"));
            o.insert("ratio".into(), json!(ratio.to_string()));
        }
    }
    Value::Object(o)
}

fn txs_from_wire(v: &Value) -> R<Vec<Transaction>> {
    v.as_array()
        .ok_or("txs must be an array")?
        .iter()
        .map(tx_from_wire)
        .collect()
}

fn txs_to_wire(txs: &[Transaction]) -> Value {
    Value::Array(txs.iter().map(tx_to_wire).collect())
}

fn cgt_error(e: &CgtError) -> Value {
    let kind = match e {
        CgtError::ParseError(_) => "ParseError",
        CgtError::SerializationError(_) => "SerializationError",
        CgtError::InvalidTransaction(_) => "InvalidTransaction",
        CgtError::InvalidDateYear { .. } => "InvalidDateYear",
        CgtError::InvalidTaxYear(_) => "InvalidTaxYear",
        CgtError::UnsupportedExemptionYear(_) => "UnsupportedExemptionYear",
        CgtError::MissingFxRate { .. } => "MissingFxRate",
        CgtError::ConfigError(_) => "ConfigError",
    };
    let mut o = json!({"kind": kind, "message": e.to_string()});
    match e {
        CgtError::ParseError(pe) => {
            let (line, col) = match pe.line_col {
                pest::error::LineColLocation::Pos((l, c)) => (l, c),
                pest::error::LineColLocation::Span((l, c), _) => (l, c),
            };
            o["line"] = json!(line);
            o["col"] = json!(col);
        }
        CgtError::MissingFxRate {
            currency,
            year,
            month,
        } => {
            o["currency"] = json!(currency);
            o["year"] = json!(year);
            o["month"] = json!(month);
        }
        CgtError::UnsupportedExemptionYear(y) => {
            o["year"] = json!(y);
        }
        _ => {}
    }
    o
}

fn report_to_wire(report: &TaxReport) -> Value {
    let tax_years: Vec<Value> = report
        .tax_years
        .iter()
        .map(|y| {
            let disposals: Vec<Value> = y
                .disposals
                .iter()
                .map(|d| {
                    let matches: Vec<Value> = d
                        .matches
                        .iter()
                        .map(|m| {
                            json!({
                                "rule": match m.rule {
                                    MatchRule::SameDay => "SameDay",
                                    MatchRule::BedAndBreakfast => "BedAndBreakfast",
                                    MatchRule::Section104 => "Section104",
                                },
                                "quantity": m.quantity.to_string(),
                                "allowable_cost": m.allowable_cost.to_string(),
                                "gain_or_loss": m.gain_or_loss.to_string(),
                                "acquisition_date": m.acquisition_date.map(|d| d.to_string()),
                            })
                        })
                        .collect();
                    json!({
                        "date": d.date.to_string(),
                        "ticker": d.ticker,
                        "quantity": d.quantity.to_string(),
                        "gross_proceeds": d.gross_proceeds.to_string(),
                        "proceeds": d.proceeds.to_string(),
                        "matches": matches,
                    })
                })
                .collect();
            json!({
                "start_year": y.period.start_year(),
                "period": y.period.to_string(),
                "disposals": disposals,
                "disposal_count": y.disposal_count(),
                "total_gain": y.total_gain.to_string(),
                "total_loss": y.total_loss.to_string(),
                "net_gain": y.net_gain.to_string(),
                "exempt_amount": y.exempt_amount.to_string(),
                "taxable_gain": y.taxable_gain(y.exempt_amount).to_string(),
                "gross_proceeds": y.gross_proceeds().to_string(),
                "dividend_income": y.dividend_income.to_string(),
                "dividend_tax_paid": y.dividend_tax_paid.to_string(),
            })
        })
        .collect();
    let holdings: Vec<Value> = report
        .holdings
        .iter()
        .map(|h| {
            json!({
                "ticker": h.ticker,
                "quantity": h.quantity.to_string(),
                "total_cost": h.total_cost.to_string(),
            })
        })
        .collect();
    json!({
        "tax_years": tax_years,
        "holdings": holdings,
        "transactions": txs_to_wire(&report.transactions),
    })
}

fn bundled_cache() -> &'static Result<FxCache, String> {
    static CACHE: OnceLock<Result<FxCache, String>> = OnceLock::new();
    CACHE.get_or_init(|| cgt_money::load_default_cache().map_err(|e| e.to_string()))
}

enum Fx {
    None,
    Bundled,
    Custom(FxCache),
}

impl Fx {
    fn get(&self) -> R<Option<&FxCache>> {
        match self {
            Fx::None => Ok(None),
            Fx::Bundled => match bundled_cache() {
                Ok(c) => Ok(Some(c)),
                Err(e) => Err(format!("bundled cache failed: {e}")),
            },
            Fx::Custom(c) => Ok(Some(c)),
        }
    }
}

/// fx spec: "none" | "bundled" | {"folder": [{"name":..., "xml":..., "mtime": secs|null}]}
/// Returns Err(Value) with an fx-loader error observation when the folder is rejected.
fn fx_from_spec(v: Option<&Value>) -> Result<Fx, Value> {
    match v {
        None | Some(Value::Null) => Ok(Fx::None),
        Some(Value::String(s)) if s == "none" => Ok(Fx::None),
        Some(Value::String(s)) if s == "bundled" => Ok(Fx::Bundled),
        Some(Value::Object(o)) => {
            let files = o
                .get("folder")
                .and_then(Value::as_array)
                .ok_or_else(|| json!({"kind": "Harness", "message": "fx.folder must be an array"}))?;
            let rate_files: Vec<RateFile> = files
                .iter()
                .map(|f| RateFile {
                    name: f
                        .get("name")
                        .and_then(Value::as_str)
                        .unwrap_or("")
                        .into(),
                    modified: f
                        .get("mtime")
                        .and_then(Value::as_u64)
                        .map(|s| UNIX_EPOCH + Duration::from_secs(s)),
                    xml: f.get("xml").and_then(Value::as_str).unwrap_or("").to_string(),
                })
                .collect();
            cgt_money::load_cache_with_overrides(rate_files)
                .map(Fx::Custom)
                .map_err(|e| json!({"kind": "FxLoaderError", "message": e.to_string()}))
        }
        Some(other) => Err(json!({"kind": "Harness", "message": format!("bad fx spec {other}")})),
    }
}

fn config_from_spec(v: Option<&Value>) -> R<Config> {
    match v {
        None | Some(Value::Null) => Config::embedded().map_err(|e| e.to_string()),
        Some(Value::String(s)) if s == "embedded" => Config::embedded().map_err(|e| e.to_string()),
        Some(Value::Object(o)) => {
            let mut config = Config::default();
            if let Some(r) = o.get("range").and_then(Value::as_array) {
                // {"range": [first_year, last_year, amount]}
                let lo = r.first().and_then(Value::as_u64).ok_or("bad range")? as u16;
                let hi = r.get(1).and_then(Value::as_u64).ok_or("bad range")? as u16;
                let amount = dec(r.get(2).ok_or("bad range")?)?;
                for y in lo..=hi {
                    config.exemptions.insert(y, amount);
                }
                return Ok(config);
            }
            for (k, val) in o {
                let year: u16 = k.parse().map_err(|_| format!("bad exemption year {k}"))?;
                config.exemptions.insert(year, dec(val)?);
            }
            Ok(config)
        }
        Some(other) => Err(format!("bad exemptions spec {other}")),
    }
}

/// Input transactions: {"txs": [...]} (wire structs), {"dsl": "..."} or {"json": "..."}.
fn input_txs(case: &Value) -> Result<Vec<Transaction>, Value> {
    if let Some(t) = case.get("txs") {
        return txs_from_wire(t).map_err(|e| json!({"kind": "Harness", "message": e}));
    }
    if let Some(t) = case.get("dsl").and_then(Value::as_str) {
        return parse_file(t).map_err(|e| cgt_error(&e));
    }
    if let Some(t) = case.get("json").and_then(Value::as_str) {
        return serde_json::from_str::<Vec<Transaction>>(t)
            .map_err(|e| json!({"kind": "JsonError", "message": e.to_string(), "line": e.line()}));
    }
    Err(json!({"kind": "Harness", "message": "no txs/dsl/json given"}))
}

fn fnv64(bytes: &[u8]) -> String {
    let mut h: u64 = 0xcbf2_9ce4_8422_2325;
    for b in bytes {
        h ^= u64::from(*b);
        h = h.wrapping_mul(0x0100_0000_01b3);
    }
    format!("{h:016x}")
}

fn op_calc(case: &Value) -> Value {
    let txs = match input_txs(case) {
        Ok(t) => t,
        Err(e) => return json!({"err": e, "stage": "input"}),
    };
    let fx = match fx_from_spec(case.get("fx")) {
        Ok(f) => f,
        Err(e) => return json!({"err": e, "stage": "fx"}),
    };
    let fx_ref = match fx.get() {
        Ok(f) => f,
        Err(e) => return json!({"err": {"kind": "Harness", "message": e}, "stage": "fx"}),
    };
    let config = match config_from_spec(case.get("exemptions")) {
        Ok(c) => c,
        Err(e) => return json!({"err": {"kind": "Harness", "message": e}, "stage": "config"}),
    };
    let year = case.get("year").and_then(Value::as_i64).map(|y| y as i32);
    let record = case.get("record").and_then(Value::as_bool).unwrap_or(false);
    let shuffle = case.get("shuffle").and_then(Value::as_u64);
    let armed = record || shuffle.is_some();
    #[cfg(feature = "hooks")]
    if armed {
        cgt_core::verif::arm(shuffle);
    }
    let result = calculate(&txs, year, fx_ref, &config);
    #[cfg(feature = "hooks")]
    let recording = if armed {
        Some(cgt_core::verif::disarm())
    } else {
        None
    };
    #[cfg(not(feature = "hooks"))]
    let _ = armed;
    let mut out = Map::new();
    match result {
        Ok(report) => {
            let mut ok = Map::new();
            ok.insert("report".into(), report_to_wire(&report));
            let outputs: Vec<&str> = case
                .get("outputs")
                .and_then(Value::as_array)
                .map(|a| a.iter().filter_map(Value::as_str).collect())
                .unwrap_or_default();
            for o in outputs {
                match o {
                    "plain" => {
                        ok.insert("plain".into(), json!(cgt_formatter_plain::format(&report)));
                    }
                    "json" => match serde_json::to_string_pretty(&report) {
                        Ok(s) => {
                            ok.insert("json".into(), json!(s));
                        }
                        Err(e) => {
                            ok.insert("json_err".into(), json!(e.to_string()));
                        }
                    },
                    #[cfg(feature = "hooks")]
                    "pdf_runs" => match cgt_formatter_pdf::verif_text_runs(&report) {
                        Ok(runs) => {
                            ok.insert("pdf_runs".into(), json!(runs));
                        }
                        Err(e) => {
                            ok.insert("pdf_err".into(), json!(e.to_string()));
                        }
                    },
                    "pdf_bytes" => match cgt_formatter_pdf::format(&report) {
                        Ok(bytes) => {
                            ok.insert(
                                "pdf_bytes".into(),
                                json!({"len": bytes.len(), "fnv64": fnv64(&bytes),
                                       "magic": String::from_utf8_lossy(&bytes[..bytes.len().min(5)])}),
                            );
                        }
                        Err(e) => {
                            ok.insert("pdf_err".into(), json!(e.to_string()));
                        }
                    },
                    _ => {}
                }
            }
            out.insert("ok".into(), Value::Object(ok));
        }
        Err(e) => {
            out.insert("err".into(), cgt_error(&e));
            out.insert("stage".into(), json!("calculate"));
        }
    }
    #[cfg(feature = "hooks")]
    if let Some(rec) = recording {
        if record {
            out.insert("snapshots".into(), Value::Array(rec.snapshots));
        }
        out.insert("orders".into(), Value::Array(rec.orders));
    }
    #[cfg(not(feature = "hooks"))]
    let _ = record;
    Value::Object(out)
}

fn op_parse(case: &Value) -> Value {
    let text = case.get("text").and_then(Value::as_str).unwrap_or("");
    match parse_file(text) {
        Ok(txs) => json!({"ok": txs_to_wire(&txs)}),
        Err(e) => json!({"err": cgt_error(&e)}),
    }
}

fn op_to_dsl(case: &Value) -> Value {
    match input_txs(case) {
        Ok(txs) => json!({"ok": cgt_core::dsl::transactions_to_dsl(&txs)}),
        Err(e) => json!({"err": e}),
    }
}

fn op_json_ser(case: &Value) -> Value {
    match input_txs(case) {
        Ok(txs) => match serde_json::to_string_pretty(&txs) {
            Ok(s) => json!({"ok": s}),
            Err(e) => json!({"err": {"kind": "JsonError", "message": e.to_string()}}),
        },
        Err(e) => json!({"err": e}),
    }
}

fn op_json_de(case: &Value) -> Value {
    let text = case.get("text").and_then(Value::as_str).unwrap_or("");
    match serde_json::from_str::<Vec<Transaction>>(text) {
        Ok(txs) => json!({"ok": txs_to_wire(&txs)}),
        Err(e) => json!({"err": {"kind": "JsonError", "message": e.to_string(), "line": e.line()}}),
    }
}

fn op_validate(case: &Value) -> Value {
    match input_txs(case) {
        Ok(txs) => {
            let r = cgt_core::validate(&txs);
            let errors: Vec<Value> = r
                .errors
                .iter()
                .map(|e| json!({"line": e.line, "date": e.date.to_string(), "ticker": e.ticker, "message": e.message}))
                .collect();
            let warnings: Vec<Value> = r
                .warnings
                .iter()
                .map(|e| json!({"line": e.line, "date": e.date.to_string(), "ticker": e.ticker, "message": e.message}))
                .collect();
            json!({"ok": {"is_valid": r.is_valid(), "errors": errors, "warnings": warnings}})
        }
        Err(e) => json!({"err": e}),
    }
}

fn op_convert(case: &Value) -> Value {
    use cgt_converter::BrokerConverter;
    use cgt_converter::schwab::{SchwabConverter, SchwabInput};
    let input = SchwabInput {
        transactions_json: case
            .get("transactions_json")
            .and_then(Value::as_str)
            .unwrap_or("")
            .to_string(),
        awards_json: case
            .get("awards_json")
            .and_then(Value::as_str)
            .map(str::to_string),
    };
    match SchwabConverter::new().convert(&input) {
        Ok(out) => {
            let mut ok = json!({
                "cgt_content": out.cgt_content,
                "warnings": out.warnings,
                "skipped_count": out.skipped_count,
            });
            if case.get("reparse").and_then(Value::as_bool).unwrap_or(false) {
                ok["reparse"] = match parse_file(&out.cgt_content) {
                    Ok(txs) => json!({"ok": txs_to_wire(&txs)}),
                    Err(e) => json!({"err": cgt_error(&e)}),
                };
            }
            json!({"ok": ok})
        }
        Err(e) => {
            use cgt_converter::ConvertError as CE;
            let kind = match &e {
                CE::JsonError(_) => "JsonError",
                CE::InvalidDate(_) => "InvalidDate",
                CE::InvalidAmount(_) => "InvalidAmount",
                CE::MissingFairMarketValue { .. } => "MissingFairMarketValue",
                CE::InvalidTransaction(_) => "InvalidTransaction",
            };
            let mut o = json!({"kind": kind, "message": e.to_string()});
            if let CE::MissingFairMarketValue { date, symbol } = &e {
                o["date"] = json!(date);
                o["symbol"] = json!(symbol);
            }
            json!({"err": o})
        }
    }
}

fn op_tax_period(case: &Value) -> Value {
    let dates = case.get("dates").and_then(Value::as_array).cloned().unwrap_or_default();
    let out: Vec<Value> = dates
        .iter()
        .map(|d| match date(d) {
            Ok(d) => match TaxPeriod::from_date(d) {
                Ok(p) => json!({"ok": p.start_year(), "display": p.to_string()}),
                Err(e) => json!({"err": cgt_error(&e)}),
            },
            Err(e) => json!({"err": {"kind": "Harness", "message": e}}),
        })
        .collect();
    json!({"ok": out})
}

fn op_currencies(_case: &Value) -> Value {
    let mut out = Vec::new();
    for a in b'A'..=b'Z' {
        for b in b'A'..=b'Z' {
            for c in b'A'..=b'Z' {
                let code = String::from_utf8_lossy(&[a, b, c]).to_string();
                if let Some(cur) = Currency::from_code(&code) {
                    out.push(json!({
                        "code": cur.code(),
                        "symbol": cur.symbol().to_string(),
                        "exponent": cur.exponent(),
                    }));
                }
            }
        }
    }
    json!({"ok": out})
}

fn op_fx_get(case: &Value) -> Value {
    let fx = match fx_from_spec(case.get("fx")) {
        Ok(f) => f,
        Err(e) => return json!({"err": e, "stage": "fx"}),
    };
    let cache = match fx.get() {
        Ok(Some(c)) => c,
        Ok(None) => return json!({"err": {"kind": "Harness", "message": "no cache"}}),
        Err(e) => return json!({"err": {"kind": "Harness", "message": e}}),
    };
    let queries = case.get("queries").and_then(Value::as_array).cloned().unwrap_or_default();
    let out: Vec<Value> = queries
        .iter()
        .map(|q| {
            let code = q.get(0).and_then(Value::as_str).unwrap_or("");
            let year = q.get(1).and_then(Value::as_i64).unwrap_or(0) as i32;
            let month = q.get(2).and_then(Value::as_u64).unwrap_or(0) as u32;
            match Currency::from_code(code) {
                Some(cur) => match cache.get(cur, year, month) {
                    Some(e) => json!(e.rate_per_gbp.to_string()),
                    None => Value::Null,
                },
                None => json!("unknown-code"),
            }
        })
        .collect();
    json!({"ok": out, "len": cache.len()})
}

fn op_format(case: &Value) -> Value {
    // cgt-format helpers on raw decimals (for C17 cross-checks of the shared formatter).
    let values = case.get("values").and_then(Value::as_array).cloned().unwrap_or_default();
    let out: Vec<Value> = values
        .iter()
        .map(|v| match dec(v) {
            Ok(d) => json!({
                "gbp": cgt_format::format_gbp(d),
                "trimmed": cgt_format::format_decimal_trimmed(d),
                "round_gbp": cgt_format::round_gbp(d).to_string(),
            }),
            Err(e) => json!({"err": e}),
        })
        .collect();
    json!({"ok": out})
}

fn dispatch(case: &Value) -> Value {
    let op = case.get("op").and_then(Value::as_str).unwrap_or("");
    match op {
        "calc" => op_calc(case),
        "parse" => op_parse(case),
        "to_dsl" => op_to_dsl(case),
        "json_ser" => op_json_ser(case),
        "json_de" => op_json_de(case),
        "validate" => op_validate(case),
        "convert" => op_convert(case),
        "tax_period" => op_tax_period(case),
        "currencies" => op_currencies(case),
        "fx_get" => op_fx_get(case),
        "format" => op_format(case),
        "ping" => json!({"ok": "pong", "hooks": cfg!(feature = "hooks")}),
        other => json!({"err": {"kind": "Harness", "message": format!("unknown op {other}")}}),
    }
}

fn main() {
    std::panic::set_hook(Box::new(|info| {
        let message = if let Some(s) = info.payload().downcast_ref::<&str>() {
            (*s).to_string()
        } else if let Some(s) = info.payload().downcast_ref::<String>() {
            s.clone()
        } else {
            "<non-string panic payload>".to_string()
        };
        let location = info
            .location()
            .map(|l| format!("{}:{}", l.file(), l.line()))
            .unwrap_or_default();
        LAST_PANIC.with(|p| {
            *p.borrow_mut() = Some(json!({"message": message, "location": location}));
        });
    }));

    let stdin = std::io::stdin();
    let stdout = std::io::stdout();
    let mut out = std::io::BufWriter::new(stdout.lock());
    for line in stdin.lock().lines() {
        let Ok(line) = line else { break };
        if line.trim().is_empty() {
            continue;
        }
        let case: Value = match serde_json::from_str(&line) {
            Ok(v) => v,
            Err(e) => {
                let _ = writeln!(
                    out,
                    "{}",
                    json!({"err": {"kind": "Harness", "message": format!("bad case json: {e}")}})
                );
                let _ = out.flush();
                continue;
            }
        };
        let id = case.get("id").cloned().unwrap_or(Value::Null);
        let result = catch_unwind(AssertUnwindSafe(|| dispatch(&case)));
        let mut obs = match result {
            Ok(v) => v,
            Err(_) => {
                // A panic may leave the recorder armed; reset it.
                #[cfg(feature = "hooks")]
                let _ = cgt_core::verif::disarm();
                let p = LAST_PANIC.with(|p| p.borrow_mut().take());
                json!({"panic": p.unwrap_or(json!({"message": "unknown", "location": ""}))})
            }
        };
        if let Value::Object(o) = &mut obs {
            o.insert("id".into(), id);
        }
        let _ = writeln!(out, "{obs}");
        let _ = out.flush();
    }
}
