"""Shape-directed ledger generator.

Each security is produced by a forward random walk over dates whose gaps are drawn from a
boundary-heavy distribution (0 = same day, 1, 2, 29, 30, 31, 32, ...), so that same-day
matches, 30-day matches, several disposals competing for one acquisition, acquisitions that
also have same-day disposals, and splits inside a 30-day window all arise densely; directed
episode templates add the shapes a walk hits rarely. The exact position is tracked so the
ledger stays covered (callers that want uncovered ledgers mutate the result).

Transactions are dicts in the harness wire format with decimal *strings*:
  {"date","ticker","kind","amount","price":[amt,code],"fees":[amt,code]} etc.
"""
from __future__ import annotations

import datetime as dt
from fractions import Fraction

from ..util import dstr, iso, ZERO

GAPS = [0, 0, 0, 1, 1, 2, 3, 7, 15, 28, 29, 29, 30, 30, 30, 31, 31, 32, 33, 45, 60, 120, 200]
GAPS_LONG = [40, 61, 90, 150, 365, 400]
TICKERS = ["AAA", "BBB", "CCC", "DDD", "EEE", "FFF", "VOD", "X", "Z9", "A1", "TSLA", "GBP1",
           "BUYX", "SELLY", "USD", "EUR", "TAX1", "Q", "LONGTICKERNAME", "00700"]
SPLIT_RATIOS_TERM = ["2", "4", "5", "10", "1.5", "2.5", "0.5", "1.25", "20"]
SPLIT_RATIOS_NONTERM = ["3", "7", "0.3", "6", "1.1", "9", "0.7"]


class Opts:
    def __init__(self, **kw):
        self.n_sec = (1, 3)
        self.steps = (4, 14)
        self.capital = False        # CAPRETURN / ACCUMULATION events
        self.dividends = True
        self.splits = True
        self.nonterm_splits = True
        self.strict = True          # no split/capital event on a trade date of the same security
        self.strict_splits = None   # override `strict` for SPLIT/UNSPLIT only
        self.strict_capital = None  # override `strict` for CAPRETURN/ACCUMULATION only
        self.currencies = None      # e.g. ["USD","EUR"]; None -> GBP only
        self.start = (dt.date(2016, 1, 1), dt.date(2025, 1, 1))
        self.last_date = dt.date(2026, 3, 1)
        self.qty_dp = 6
        self.price_dp = 6
        self.zero_price = True
        self.fees_p = 0.5
        self.gbp_explicit_p = 0.3
        self.long_gaps_p = 0.15
        self.sell_p = 0.45
        self.templates_p = 0.35
        self.__dict__.update(kw)
        if self.strict_splits is None:
            self.strict_splits = self.strict
        if self.strict_capital is None:
            self.strict_capital = self.strict


def money(amt: Fraction, code="GBP"):
    return [dstr(amt), code]


class SecWalk:
    """Generates one security's transactions."""

    def __init__(self, rng, ticker, opts: Opts, start: dt.date):
        self.r = rng
        self.tk = ticker
        self.o = opts
        self.date = start
        self.pos = ZERO            # exact position after everything emitted so far
        self.txs = []
        self.trade_dates = set()
        self.event_dates = set()   # split / capital event dates
        self.split_dates = set()
        self.capital_dates = set()
        self.day_bought = {}       # date -> qty bought that day (for sizing same-day sells)
        self.feat = set()
        self.code = "GBP"
        if opts.currencies and rng.random() < 0.7:
            self.code = rng.choice(opts.currencies)

    # -- primitive draws -------------------------------------------------
    def qty(self):
        r = self.r
        k = r.random()
        if k < 0.45:
            return Fraction(r.choice([1, 2, 3, 5, 7, 10, 20, 50, 100, 250, 1000]))
        if k < 0.7:
            return Fraction(r.randint(1, 5000))
        if k < 0.9:
            dp = r.randint(1, self.o.qty_dp)
            return Fraction(r.randint(1, 10 ** (dp + 2)), 10 ** dp)
        return Fraction(r.randint(1, 999), 10 ** self.o.qty_dp)  # tiny

    def price(self):
        r = self.r
        k = r.random()
        if self.o.zero_price and k < 0.03:
            return ZERO
        if k < 0.4:
            return Fraction(r.randint(1, 500))
        if k < 0.8:
            return Fraction(r.randint(1, 99999), 100)
        dp = r.randint(3, self.o.price_dp)
        return Fraction(r.randint(1, 10 ** (dp + 2)), 10 ** dp)

    def fees(self):
        r = self.r
        if r.random() > self.o.fees_p:
            return ZERO
        return Fraction(r.randint(1, 5000), 100)

    def cur(self):
        """Currency for one amount (price and fees may differ on one line)."""
        if self.o.currencies and self.r.random() < 0.15:
            return self.r.choice(self.o.currencies + ["GBP"])
        return self.code

    def dq(self, q: Fraction) -> str:
        """Render a quantity; floor to qty_dp decimals when it is not a short terminating decimal."""
        scale = 10 ** max(self.o.qty_dp, 8)
        if (q * scale).denominator != 1:
            q = Fraction(int(q * 10 ** self.o.qty_dp), 10 ** self.o.qty_dp)
            if q <= 0:
                q = Fraction(1, 10 ** self.o.qty_dp)
        return dstr(q)

    def advance(self, gap=None):
        r = self.r
        if gap is None:
            gap = r.choice(GAPS_LONG) if r.random() < self.o.long_gaps_p else r.choice(GAPS)
        nd = self.date + dt.timedelta(days=gap)
        if nd > self.o.last_date:
            return False
        self.date = nd
        return True

    # -- emitters --------------------------------------------------------
    def _trade_date_ok(self):
        while (self.o.strict_splits and self.date in self.split_dates) or \
                (self.o.strict_capital and self.date in self.capital_dates):
            self.date += dt.timedelta(days=1)

    def buy(self, q=None, p=None, f=None):
        self._trade_date_ok()
        q = self.qty() if q is None else q
        q = Fraction(self.dq(q))
        p = self.price() if p is None else p
        f = self.fees() if f is None else f
        self.txs.append({"date": iso(self.date), "ticker": self.tk, "kind": "BUY",
                         "amount": dstr(q), "price": money(p, self.cur()),
                         "fees": money(f, self.cur() if f else "GBP")})
        self.pos += q
        self.trade_dates.add(self.date)
        self.day_bought[self.date] = self.day_bought.get(self.date, ZERO) + q
        return q

    def sell(self, q=None, p=None, f=None):
        self._trade_date_ok()
        if self.pos <= 0:
            return None
        if q is None:
            q = self.sell_qty()
        q = min(q, self.pos)
        scale = 10 ** max(self.o.qty_dp, 8)
        if (q * scale).denominator != 1:
            # position is not a short terminating decimal (e.g. after a 1:3 split): floor it
            q = Fraction(int(q * 10 ** self.o.qty_dp), 10 ** self.o.qty_dp)
        if q <= 0:
            return None
        p = self.price() if p is None else p
        f = self.fees() if f is None else f
        self.txs.append({"date": iso(self.date), "ticker": self.tk, "kind": "SELL",
                         "amount": dstr(q), "price": money(p, self.cur()),
                         "fees": money(f, self.cur() if f else "GBP")})
        self.pos -= q
        self.trade_dates.add(self.date)
        return q

    def sell_qty(self):
        r = self.r
        k = r.random()
        pos = self.pos
        bought_today = self.day_bought.get(self.date, ZERO)
        if k < 0.2:
            return pos
        if k < 0.35 and bought_today > 0:
            return min(pos, bought_today)
        if k < 0.45 and bought_today > 0:
            return min(pos, bought_today + self.trunc(pos - bought_today, r.choice([2, 3, 4])))
        if k < 0.55 and bought_today > 0:
            return self.trunc(bought_today, r.choice([2, 3]))
        return self.trunc(pos, r.choice([2, 2, 3, 4, 5, 10]))

    def trunc(self, x: Fraction, div: int) -> Fraction:
        """x/div truncated to qty_dp decimals (so it stays a terminating decimal), at least a tick."""
        if x <= 0:
            return ZERO
        scale = 10 ** self.o.qty_dp
        v = Fraction(int(x * scale / div), scale)
        if v <= 0:
            v = min(x, Fraction(1, scale))
        return v

    def _event_date_ok(self, strict):
        if strict and self.date in self.trade_dates:
            self.date += dt.timedelta(days=1)

    def split(self, ratio=None, unsplit=None):
        self._event_date_ok(self.o.strict_splits)
        r = self.r
        if not self.o.strict_splits and self.trade_dates and r.random() < 0.6 and max(self.trade_dates) >= self.date - dt.timedelta(days=400):
            self.date = max(self.trade_dates)      # put the split on the latest trade date of the security
        if ratio is None:
            pool = SPLIT_RATIOS_TERM + (SPLIT_RATIOS_NONTERM if self.o.nonterm_splits else [])
            ratio = r.choice(pool)
        if unsplit is None:
            unsplit = r.random() < 0.3
        self.txs.append({"date": iso(self.date), "ticker": self.tk,
                         "kind": "UNSPLIT" if unsplit else "SPLIT", "ratio": ratio})
        m = Fraction(ratio)
        self.pos = self.pos / m if unsplit else self.pos * m
        self.event_dates.add(self.date)
        self.split_dates.add(self.date)
        self.feat.add("split")

    def capital(self):
        self._event_date_ok(self.o.strict_capital)
        r = self.r
        if not self.o.strict_capital and self.trade_dates and r.random() < 0.7:
            self.date = max(self.trade_dates)      # put the event on the latest trade date of the security
        # the quantity an event line quotes is informational (a statement may quote the units before a part disposal, or
        # one account's share): usually the holding, sometimes more, sometimes less
        evq = r.choice([1, 1, 1, 3, Fraction(1, 2), 10])
        if r.random() < 0.5:
            amt = Fraction(r.randint(1, 2000), 100)
            f = Fraction(r.randint(0, 100), 100) if r.random() < 0.3 else ZERO
            f = min(f, amt)
            self.txs.append({"date": iso(self.date), "ticker": self.tk, "kind": "CAPRETURN",
                             "amount": self.dq(max(self.pos, Fraction(1)) * evq), "total": money(amt, self.cur()),
                             "fees": money(f, self.cur() if f else "GBP")})
            self.feat.add("capreturn")
        else:
            amt = Fraction(r.randint(1, 5000), 100)
            t = Fraction(r.randint(0, 100), 100) if r.random() < 0.3 else ZERO
            self.txs.append({"date": iso(self.date), "ticker": self.tk, "kind": "ACCUMULATION",
                             "amount": self.dq(max(self.pos, Fraction(1)) * evq), "total": money(amt, self.cur()),
                             "tax": money(t, self.cur() if t else "GBP")})
            self.feat.add("accumulation")
        if r.random() < 0.12:
            # the same line once more: two accounts holding units of one fund report the same distribution; the two
            # lines are two events (C03-r5m2 collapsed them)
            self.txs.append(dict(self.txs[-1]))
            self.feat.add("event_line_listed_twice")
        self.event_dates.add(self.date)
        self.capital_dates.add(self.date)

    def dividend(self):
        r = self.r
        amt = Fraction(r.randint(1, 100000), 100)
        t = Fraction(r.randint(0, 3000), 100) if r.random() < 0.4 else ZERO
        self.txs.append({"date": iso(self.date), "ticker": self.tk, "kind": "DIVIDEND",
                         "total": money(amt, self.cur()), "tax": money(t, self.cur() if t else "GBP")})
        self.feat.add("dividend")

    # -- directed episodes -----------------------------------------------
    def ep_window_edge(self):
        """Sale at D, acquisitions at boundary offsets."""
        r = self.r
        if self.pos <= 0:
            self.buy()
            self.advance(r.choice([1, 31, 40]))
        D = self.date
        self.sell()
        for off in sorted(r.sample([1, 2, 15, 29, 30, 31, 32], r.randint(1, 3))):
            self.date = D + dt.timedelta(days=off)
            if self.date > self.o.last_date:
                break
            self.buy()
        self.feat.add("ep_window_edge")

    def ep_competing(self):
        """2-4 sales on D1<D2<.. all within reach of one acquisition at E (optionally with a
        same-day sale on E and/or a second acquisition and/or a split in the window)."""
        r = self.r
        if self.pos <= 0:
            self.buy(q=Fraction(r.choice([100, 500, 1000])))
            self.advance(r.choice([31, 35, 60]))
        k = r.randint(2, 4)
        D0 = self.date
        offs = sorted(r.sample(range(0, 12), k))
        sold = []
        for off in offs:
            self.date = D0 + dt.timedelta(days=off)
            q = self.sell(q=self.trunc(self.pos, r.choice([3, 4, 6, 10])))
            if q:
                sold.append(q)
        if self.o.splits and r.random() < 0.25:
            self.date = D0 + dt.timedelta(days=offs[-1] + 1)
            self.split()
        E = D0 + dt.timedelta(days=r.choice([offs[-1] + 2, 20, 29, 30]))
        if E <= self.date:
            E = self.date + dt.timedelta(days=1)
        self.date = E
        tot = sum(sold, ZERO)
        choice = r.random()
        if choice < 0.4:
            eq = self.trunc(tot, 2) if tot > 0 else None
        elif choice < 0.7:
            eq = tot if tot > 0 else None
        else:
            eq = None
        self.buy(q=eq)
        if r.random() < 0.5:
            self.sell(q=self.trunc(self.day_bought.get(self.date, self.pos), r.choice([1, 2, 3])))
            self.feat.add("ep_competing_sameday")
        if r.random() < 0.4:
            self.advance(r.choice([1, 2, 5]))
            self.buy()
        self.feat.add("ep_competing")

    def ep_multi_fill(self):
        """Several buys and sells on one day."""
        r = self.r
        for _ in range(r.randint(2, 4)):
            if r.random() < 0.6 or self.pos <= 0:
                self.buy()
            else:
                self.sell()
        self.feat.add("ep_multi_fill")

    def ep_split_in_window(self):
        r = self.r
        if self.pos <= 0:
            self.buy()
            self.advance(r.choice([31, 50]))
        D = self.date
        self.sell()
        self.date = D + dt.timedelta(days=r.randint(1, 10))
        self.split()
        self.date = self.date + dt.timedelta(days=r.randint(1, 15))
        self.buy()
        if r.random() < 0.3:
            self.advance(1)
            self.split()  # possibly SPLIT then UNSPLIT etc.
        self.feat.add("ep_split_in_window")

    def run(self, steps):
        r = self.r
        o = self.o
        self.buy()
        for _ in range(steps):
            if not self.advance():
                break
            k = r.random()
            if k < o.templates_p:
                ep = r.choice([self.ep_window_edge, self.ep_competing, self.ep_multi_fill,
                               self.ep_split_in_window if o.splits else self.ep_window_edge])
                ep()
                continue
            k = r.random()
            if k < o.sell_p:
                self.sell()
            elif k < 0.8:
                self.buy()
            elif k < 0.86 and o.splits:
                self.split()
            elif k < 0.92 and o.capital:
                self.capital()
            elif k < 0.97 and o.dividends:
                self.dividend()
            else:
                self.buy()
        return self.txs


def gen_ledger(rng, opts: Opts | None = None):
    """-> (txs, features:set). Lines are ordered by date, random within a date."""
    o = opts or Opts()
    n_sec = rng.randint(*o.n_sec)
    tickers = rng.sample(TICKERS, n_sec)
    lo, hi = o.start
    base = lo + dt.timedelta(days=rng.randint(0, max(0, (hi - lo).days)))
    txs = []
    feats = set()
    for tk in tickers:
        start = base + dt.timedelta(days=rng.choice([0, 0, 0, 1, 2, 10, 30]))
        w = SecWalk(rng, tk, o, start)
        w.run(rng.randint(*o.steps))
        txs.extend(w.txs)
        feats |= w.feat
    keyed = [(t["date"], rng.random(), t) for t in txs]
    keyed.sort(key=lambda x: (x[0], x[1]))
    feats.add(f"nsec{n_sec}")
    return [t for _, _, t in keyed], feats


def render_dsl(txs) -> str:
    """Plain canonical DSL rendering (own renderer, independent of the tool's writer)."""
    lines = []
    for t in txs:
        k = t["kind"]
        head = f"{t['date']} {k} {t['ticker']}"
        def m(x):
            return f"{x[0]} {x[1]}"
        if k in ("BUY", "SELL"):
            s = f"{head} {t['amount']} @ {m(t['price'])}"
            if Fraction(t["fees"][0]) != 0:
                s += f" FEES {m(t['fees'])}"
        elif k == "DIVIDEND":
            s = f"{head} TOTAL {m(t['total'])}"
            if Fraction(t["tax"][0]) != 0:
                s += f" TAX {m(t['tax'])}"
        elif k == "ACCUMULATION":
            s = f"{head} {t['amount']} TOTAL {m(t['total'])}"
            if Fraction(t["tax"][0]) != 0:
                s += f" TAX {m(t['tax'])}"
        elif k == "CAPRETURN":
            s = f"{head} {t['amount']} TOTAL {m(t['total'])}"
            if Fraction(t["fees"][0]) != 0:
                s += f" FEES {m(t['fees'])}"
        else:
            s = f"{head} RATIO {t['ratio']}"
        lines.append(s)
    return "\n".join(lines) + "\n"
