"""Known findings: committed file, read-only at run time."""
from __future__ import annotations

import json
import os

from .probe import ROOT

PATH = os.path.join(ROOT, "known_findings.json")


def load():
    if not os.path.exists(PATH):
        return []
    with open(PATH) as f:
        return json.load(f)["findings"]


def match_open(prop: str, signature: str):
    """Return the open finding whose exact signature equals this violation's, else None.
    `fixed` entries suppress nothing."""
    for k in load():
        if k["property"] == prop and k.get("status") == "open" and k["signature"] == signature:
            return k
    return None
