"""C20 - the MCP server answers every request exactly once, statelessly, whatever came before; its answers
equal the CLI's / the library's and explain_matching explains every disposal calculate_report lists."""
from __future__ import annotations

import datetime as dt
import json
import random
from collections import Counter
from fractions import Fraction

from ..gen.ledger import Opts, gen_ledger, render_dsl
from ..clidrv import ALL_YEARS_TOML
from ..mcpdrv import Session, call, check_history
from ..model import fx as fxm
from ..probe import probe
from ..util import cap_viols, rng_for, sha, fr, dstr, iso, d as pdate, round_half_away, tax_year_of
from . import ledger_core as lc
from .c09 import to_json_text

PROP = "C20"
TOOLS = ["parse_transactions", "calculate_report", "explain_matching", "get_fx_rate", "convert_to_dsl"]


def plan(tier, seed):
    k = 32 if tier == "quick" else 500
    shards = [{"kind": "sessions", "seed": seed, "shard": i, "n": 3} for i in range(k)]
    shards += [{"kind": "embedded", "seed": seed, "shard": i, "n": 3} for i in range(8 if tier == "quick" else 120)]
    shards += [{"kind": "envelope", "seed": seed, "shard": i, "n": 1} for i in range(2 if tier == "quick" else 20)]
    shards += [{"kind": "deep", "seed": seed, "shard": i, "n": 1} for i in range(2 if tier == "quick" else 24)]
    return shards


def small_ledger(rng, fx=False, years=None):
    lo = rng.choice(years or [2016, 2019, 2022])
    opts = Opts(capital=rng.random() < 0.3, splits=rng.random() < 0.4, n_sec=(1, 3), steps=(2, 8),
                currencies=["USD", "EUR"] if fx else None,
                start=(dt.date(lo, 1, 1), dt.date(lo + 2, 1, 1)), last_date=dt.date(2026, 3, 1))
    return gen_ledger(rng, opts)[0]


def heavy_ledger(rng, lines=2500):
    """Thousands of lines so that the calculation takes long enough for trivial calls to overtake it."""
    txs = []
    D = dt.date(2016, 1, 4)
    for i in range(lines // 2):
        tk = f"H{i % 7}"
        txs.append({"date": iso(D), "ticker": tk, "kind": "BUY", "amount": "10", "price": [str(100 + i % 13), "GBP"], "fees": ["1", "GBP"]})
        txs.append({"date": iso(D + dt.timedelta(days=1)), "ticker": tk, "kind": "SELL", "amount": "5", "price": [str(101 + i % 11), "GBP"], "fees": ["1", "GBP"]})
        D += dt.timedelta(days=1)
    return txs


def multi_year_ledger(rng, fx=False):
    """Disposals in several tax years (so year filters and explain targets differ for one ledger text)."""
    lo = rng.choice([2015, 2017, 2019, 2021])
    # half of the pool ledgers carry capital returns / accumulations (they reach back into legs of earlier disposals:
    # an answer computed from a truncated history would differ) and more 30-day shapes
    opts = Opts(capital=rng.random() < 0.5, splits=rng.random() < 0.3, n_sec=(1, 2), steps=(6, 12), long_gaps_p=0.6,
                templates_p=0.5, currencies=["USD", "EUR"] if fx else None,
                start=(dt.date(lo, 1, 1), dt.date(lo + 1, 1, 1)), last_date=dt.date(2026, 3, 1))
    return gen_ledger(rng, opts)[0]


def json_soup(rng, ctx):
    """A JSON ledger made invalid in one of many ways: truncated, a raw line break inside a string, a deleted or
    inserted character, a non-ASCII character at a varying offset of a long single line, a wrong type."""
    base = rng.choice(ctx["pool"])["txs"] if ctx["pool"] else small_ledger(rng)
    objs = json.loads(to_json_text(base[:rng.randint(1, 6)], lambda t: t))
    how = rng.choice(["truncated", "raw-newline-in-string", "delete-char", "insert-char", "non-ascii", "non-ascii-dense",
                      "non-ascii-dense", "wrong-type",
                      "pretty-error-at-line-start", "missing-field", "bad-date", "bad-number"])
    pretty = rng.random() < 0.5
    if how == "non-ascii":
        o = objs[rng.randrange(len(objs))]
        pad = "x" * rng.randint(0, 130)
        o["note"] = pad
        key = rng.choice([k for k in ("price", "total_value", "fees") if k in o] or ["ticker"])
        o[key] = rng.choice(["£131.20", "€5", "1·5", "１２", "12\u00a0000"])
        text = json.dumps(objs, ensure_ascii=False, indent=2 if pretty else None)
        return text, how
    if how == "non-ascii-dense":
        # one long line with runs of multi-byte characters at varying distances on both sides of the error
        j = rng.randrange(len(objs))
        o = objs[j]
        ch = rng.choice(["£", "€", "é", "😀", "Ω"])
        bad_key = rng.choice([k for k in ("amount", "ratio", "price", "total_value") if k in o] or ["date"])
        new = {"a": "x" * rng.randint(0, 7) + ch * rng.randint(10, 70)}
        for k_, v_ in o.items():
            new[k_] = v_
        new[bad_key] = rng.choice(["abc", "1.2.3", None, True, "2024-99-99", ch + "5"])
        new["z"] = "y" * rng.randint(0, 7) + ch * rng.randint(10, 70)
        objs[j] = new
        return json.dumps(objs, ensure_ascii=False), how
    if how == "wrong-type":
        o = objs[rng.randrange(len(objs))]
        o[rng.choice(list(o))] = rng.choice([None, True, [], {}, 1.5e300, -1])
        return json.dumps(objs, indent=2 if pretty else None), how
    if how == "missing-field":
        o = objs[rng.randrange(len(objs))]
        o.pop(rng.choice(list(o)))
        return json.dumps(objs, indent=2 if pretty else None), how
    if how == "bad-date":
        objs[rng.randrange(len(objs))]["date"] = rng.choice(["2024-02-30", "01/02/2024", "", "2024-13-01", "20240101"])
        return json.dumps(objs, indent=2 if pretty else None), how
    if how == "bad-number":
        o = objs[rng.randrange(len(objs))]
        key = rng.choice([k for k in ("amount", "ratio") if k in o] or ["ticker"])
        o[key] = rng.choice(["abc", "1.2.3", "", "-5", "0", "1e400", "٣"])
        return json.dumps(objs, indent=2 if pretty else None), how
    text = json.dumps(objs, indent=2 if (pretty or how == "pretty-error-at-line-start") else None)
    if how == "truncated":
        return text[:rng.randint(1, max(1, len(text) - 1))], how
    if how == "raw-newline-in-string":
        # a string value wrapped with a raw line break: the error lands on the first byte of the next line
        idx = [i for i, c in enumerate(text) if c == '"']
        i = rng.choice(idx[1::2]) if len(idx) > 2 else len(text) // 2
        return text[:i] + rng.choice(["\n", "\r\n", "\n\n"]) + text[i:], how
    if how == "pretty-error-at-line-start":
        lines = text.split("\n")
        j = rng.randrange(1, len(lines))
        lines[j] = rng.choice(["}", "]", ",", "x", "\"", ":"]) + lines[j].lstrip() if rng.random() < 0.5 else rng.choice(["", "@", "}"])
        return "\n".join(lines), how
    i = rng.randrange(len(text))
    if how == "delete-char":
        return text[:i] + text[i + 1:], how
    return text[:i] + rng.choice(['"', "{", "}", ",", ":", "\\", "\n", "é", "\x00"]) + text[i:], how


def gen_request(rng, rid, ctx):
    """-> (request, meta). meta['class'] labels the request; meta may carry the ledger for oracles."""
    k = rng.random()
    if k < 0.05:
        return {"jsonrpc": "2.0", "id": rid, "method": "tools/list"}, {"class": "tools/list"}
    if k < 0.09:
        return {"jsonrpc": "2.0", "id": rid, "method": "resources/list"}, {"class": "resources/list"}
    if k < 0.14:
        uri = rng.choice(["cgt://docs/dsl-syntax", "cgt://docs/tax-rules", "cgt://docs/nope", "", "file:///etc/passwd"])
        return {"jsonrpc": "2.0", "id": rid, "method": "resources/read", "params": {"uri": uri}}, {"class": "resources/read"}
    if k < 0.18:
        return {"jsonrpc": "2.0", "id": rid, "method": "ping"}, {"class": "ping"}
    if k < 0.22:
        return call(rid, rng.choice(["nope", "calculate", "", "CALCULATE_REPORT"]), {"transactions": "x"}), {"class": "unknown-tool"}
    if k < 0.30:
        # malformed arguments for a real tool
        tool = rng.choice(TOOLS)
        args = rng.choice([{}, {"transactions": 5}, {"transactions": None}, {"currency": "USD"}, {"year": "2024", "transactions": "x"},
                           {"currency": "USD", "year": 2024, "month": "1"}, {"currency": "USD", "year": 2024, "month": -1},
                           {"transactions": ["a"]}, {"disposal_date": "2024-01-01"}])
        r = call(rid, tool, args)
        return r, {"class": "malformed-arguments"}
    if k < 0.42:
        cur = rng.choice(["USD", "usd", "EUR", "JPY", "XXX", "ZZZ", "", "GBP", "Eur"])
        y, m = rng.choice([(2024, 1), (2015, 12), (2026, 3), (2026, 4), (1900, 1), (2020, 0), (2020, 13), (2019, 6), (2023, 12)])
        return call(rid, "get_fx_rate", {"currency": cur, "year": y, "month": m}), {"class": "get_fx_rate", "q": (cur, y, m)}
    if k < 0.50:
        # malformed JSON ledgers of many shapes (every one must be answered with an error)
        text, how = json_soup(rng, ctx)
        t = rng.choice(["parse_transactions", "calculate_report", "convert_to_dsl", "explain_matching"])
        args = {"transactions": text}
        if t == "explain_matching":
            args.update(disposal_date="2024-01-01", ticker="X")
        return call(rid, t, args), {"class": "json-soup:" + how, "tool": t}
    # ledger-based tools: mostly drawn from a small per-session pool, so the same ledger text recurs with
    # different tools, year filters and disposals (a server that remembered anything would show it)
    fx = rng.random() < 0.3
    pooled = None
    if rng.random() < ctx["heavy_p"]:
        txs = ctx["heavy"]
    elif ctx["pool"] and rng.random() < 0.7:
        pooled = rng.choice(ctx["pool"])
        txs, fx = pooled["txs"], pooled["fx"]
    elif rng.random() < 0.12:
        # a non-empty ledger without a single trade: a year's dividends only (a tool that equates "no trades" with
        # "no transactions" shows here)
        fx = False
        txs = [{"date": iso(dt.date(rng.choice([2019, 2022, 2024]), rng.randint(1, 12), rng.randint(1, 28))), "ticker": rng.choice(["VWRL", "ACME"]),
                "kind": "DIVIDEND", "total": [dstr(Fraction(rng.randint(100, 99999), 100)), "GBP"],
                "tax": [dstr(Fraction(rng.randint(0, 999), 100)), "GBP"]} for _ in range(rng.randint(1, 5))]
        txs.sort(key=lambda t: t["date"])
    else:
        txs = small_ledger(rng, fx)
    heavy = txs is ctx["heavy"]
    if pooled:
        mode = rng.choice(["dsl", "dsl", "dsl", "json"])
        text = pooled["dsl"] if mode == "dsl" else pooled["json"]
    else:
        mode = rng.choice(["dsl", "dsl", "json"]) if not heavy else "dsl"
        text = render_dsl(txs) if mode == "dsl" else to_json_text(txs, lambda t: t)
    flavour = rng.random()
    if flavour < 0.12 and not heavy:
        # uncovered / failing ledgers and syntax errors
        bad = rng.choice(["oversell", "syntax", "empty", "bad_json"])
        if bad == "oversell":
            txs = txs + [{"date": "2026-03-01", "ticker": txs[0]["ticker"], "kind": "SELL", "amount": "999999999", "price": ["1", "GBP"], "fees": ["0", "GBP"]}]
            text = render_dsl(txs)
            mode = "dsl"
        elif bad == "syntax":
            text = render_dsl(txs) + "2024-13-45 BUY %% @\n"
            mode = "dsl"
        elif bad == "empty":
            text = rng.choice(["", "   ", "# only a comment\n", "[]"])
        else:
            text = '[{"date": "2024-01-01", "ticker": "X", "action": "BUY", "amount": "1"'
        t = rng.choice(["calculate_report", "parse_transactions", "explain_matching"])
        if bad == "oversell" and t == "parse_transactions":
            t = "calculate_report"      # parsing alone legitimately succeeds on an uncovered ledger
        args = {"transactions": text}
        if t == "explain_matching":
            args.update(disposal_date="2024-01-01", ticker="X")
        return call(rid, t, args), {"class": "failing-input:" + bad, "tool": t}
    t = rng.choice(["parse_transactions", "calculate_report", "calculate_report", "explain_matching", "explain_matching", "convert_to_dsl"])
    if heavy:
        t = "calculate_report"
    if t == "calculate_report":
        args = {"transactions": text}
        yf = None
        if rng.random() < 0.4:
            years = sorted({tax_year_of(pdate(x["date"])) for x in txs})
            yf = rng.choice(years + [years[0] - 1])
            args["year"] = yf
        return call(rid, t, args), {"class": "calculate_report" + (":heavy" if heavy else ""), "txs": txs, "year": yf, "mode": mode, "fx": fx}
    if t == "explain_matching":
        sells = [x for x in txs if x["kind"] == "SELL"]
        pick = rng.random()
        if sells and pick < 0.75:
            s = rng.choice(sells)
            tk = s["ticker"] if rng.random() < 0.6 else s["ticker"].lower()
            return call(rid, t, {"transactions": text, "disposal_date": s["date"], "ticker": tk}), \
                {"class": "explain_matching", "txs": txs, "date": s["date"], "ticker": s["ticker"], "fx": fx,
                 "pooled": pooled is not None, "text_key": sha(text)[:12]}
        bad = rng.choice([("2024-02-30", "X"), ("01/02/2024", "X"), ("2024-01-01", "NOPE"), (txs[0]["date"], txs[0]["ticker"])])
        return call(rid, t, {"transactions": text, "disposal_date": bad[0], "ticker": bad[1]}), \
            {"class": "explain_matching:not-found-or-bad-date", "txs": txs}
    if t == "parse_transactions":
        return call(rid, t, {"transactions": text}), {"class": "parse_transactions", "txs": txs, "mode": mode}
    return call(rid, t, {"transactions": text}), {"class": "convert_to_dsl", "txs": txs, "mode": mode}


def result_text(resp):
    try:
        return resp["result"]["content"][0]["text"]
    except Exception:
        return None


def normalise(resp):
    """Response body without the id (for reference comparison). The order in which tools/list enumerates the
    tools is not an answer of a tool and is compared as a set."""
    r = json.loads(json.dumps(resp))
    r.pop("id", None)
    res = r.get("result")
    if isinstance(res, dict) and isinstance(res.get("tools"), list):
        res["tools"] = sorted(res["tools"], key=lambda t: t.get("name", ""))
    return r


def oracle_calculate(meta, resp, cnt, viols, rid):
    """calculate_report vs the library (same code as `report --format json`) for non-empty ledgers."""
    txs = meta["txs"]
    o = probe().one(dict(lc.calc_case(txs, year=meta.get("year"), fx="bundled"), outputs=["json"]))
    if "ok" in o:
        cnt["calculate_vs_library"] += 1
        txt = result_text(resp)
        if txt is None:
            viols.append(("calculate-error-but-library-accepts", f"{rid}: {str(resp.get('error'))[:200]}"))
            return None
        got = json.loads(txt)
        want = json.loads(o["ok"]["json"])
        if got.get("tax_years") != want["tax_years"] or got.get("holdings") != want["holdings"]:
            viols.append(("calculate-differs-from-report-json", f"{rid}"))
        if "transactions" in got:
            pass
        return o
    else:
        if "result" in resp and not resp["result"].get("isError"):
            viols.append(("calculate-result-but-library-rejects", f"{rid}: {str(o.get('err'))[:150]}"))
        else:
            cnt["calculate_errors_agree"] += 1
        return None


def oracle_explain(meta, resp, cnt, viols, rid):
    txs = meta["txs"]
    o = probe().one(lc.calc_case(txs, fx="bundled"))
    if "ok" not in o:
        if "result" in resp and not resp["result"].get("isError"):
            viols.append(("explain-result-but-library-rejects", rid))
        return
    rep = lc.parse_report(o["ok"]["report"])
    d = next((x for x in lc.all_disposals(rep) if x["date"] == pdate(meta["date"]) and x["ticker"] == meta["ticker"]), None)
    if d is None:
        return
    cnt["disposals_explained"] += 1
    if (d["date"].month, d["date"].day) in ((4, 5), (4, 6)):
        cnt["boundary_day_disposals_explained"] += 1
    txt = result_text(resp)
    if txt is None:
        viols.append(("explain-cannot-explain-listed-disposal", f"{rid}: {meta['ticker']} {meta['date']}: {str(resp.get('error', {}).get('message'))[:200]}"))
        return
    e = json.loads(txt)
    bad = []
    if e["disposal_date"] != meta["date"] or e["ticker"] != meta["ticker"]:
        bad.append("date/ticker")
    if fr(e["quantity"]) != d["qty"]:
        bad.append(f"quantity {e['quantity']}")
    if fr(e["proceeds"]) != d["net"]:
        bad.append(f"proceeds {e['proceeds']} vs {d['net']}")
    if len(e["matches"]) != len(d["legs"]):
        bad.append("leg count")
    else:
        for m, l in zip(e["matches"], d["legs"]):
            rule = {"SameDay": "Same Day", "BedAndBreakfast": "Bed & Breakfast", "Section104": "Section 104"}[l["rule"]]
            if m["rule"] != rule or fr(m["quantity"]) != l["qty"] or fr(m["allowable_cost"]) != l["cost"] or fr(m["gain_or_loss"]) != l["gain"]:
                bad.append(f"leg {m['rule']}")
            if (m.get("acquisition_date") or None) != (l["acq"].isoformat() if l["acq"] else None):
                bad.append("acquisition date")
            bad += explanation_figures(m.get("explanation", ""), l)
    tot = sum((l["gain"] for l in d["legs"]), Fraction(0))
    if abs(fr(e["total_gain_or_loss"]) - tot) > Fraction(1, 10 ** 15):
        bad.append("total")
    if bad:
        viols.append(("explain-figures-differ-from-report", f"{rid}: {bad[:3]}"))


def explanation_figures(text, leg):
    """Figures quoted in the free-text explanation of a leg: the share count must be the leg's quantity and the cost
    the leg's allowable cost, shown in full or rounded to pence half away from zero."""
    import re
    out = []
    m = re.search(r"Matched ([0-9.]+) shares", text)
    if m and fr(m.group(1)) != leg["qty"]:
        out.append(f"explanation quotes {m.group(1)} shares for a leg of {leg['qty']}")
    m = re.search(r"Cost basis: [£]?(-?[0-9][0-9,]*\.?[0-9]*)", text)
    if m:
        shown = fr(m.group(1).replace(",", ""))
        if shown != leg["cost"] and shown != round_half_away(leg["cost"], 2):
            out.append(f"explanation quotes cost {m.group(1)} for a leg costing {leg['cost']}")
    elif text:
        out.append("explanation carries no cost figure")
    return out


def oracle_fx(meta, resp, cnt, viols, rid):
    cur, y, m = meta["q"]
    table = fxm.Table()
    txt = result_text(resp)
    valid_month = 1 <= m <= 12
    rs = table.rates(cur.upper(), y, m) if valid_month else None
    cnt["fx_rate_queries"] += 1
    if rs:
        if txt is None:
            viols.append(("fx-rate-missing", f"{rid}: {cur} {y}-{m}: {str(resp.get('error'))[:120]}"))
            return
        j = json.loads(txt)
        if Fraction(j["rate"]) not in rs or j["currency"] != cur.upper() or j["period"] != f"{y}-{m:02d}":
            viols.append(("fx-rate-differs-from-table", f"{rid}: {j} vs {[str(x) for x in rs]}"))
        else:
            cnt["fx_rates_equal_table"] += 1
    else:
        if txt is not None and cur.upper() != "GBP":
            viols.append(("fx-rate-invented", f"{rid}: {cur} {y}-{m}: {txt[:100]}"))


def oracle_parse_convert(meta, resp, cnt, viols, rid, tool):
    txs = meta["txs"]
    txt = result_text(resp)
    if txt is None:
        viols.append((f"{tool}-rejects-valid-input", f"{rid}: {str(resp.get('error', {}).get('message'))[:200]}"))
        return
    if tool == "parse_transactions":
        back = probe().one({"op": "json_de", "text": txt})
    else:
        back = probe().one({"op": "parse", "text": txt})
    cnt[f"{tool}_outputs_reread"] += 1
    from .c14 import same_tx
    if "ok" not in back or len(back["ok"]) != len(txs) or any(same_tx(_norm(x), _norm(y)) for x, y in zip(txs, back["ok"])):
        viols.append((f"{tool}-output-differs-from-input", f"{rid}"))


def _norm(t):
    """Numeric normal form of a wire transaction (the MCP path goes through text renderings)."""
    out = {"date": t["date"], "ticker": t["ticker"].upper(), "kind": t["kind"]}
    for f in ("amount", "ratio"):
        if f in t:
            out[f] = str(fr(t[f]))
    for f in ("price", "fees", "total", "tax"):
        if f in t:
            out[f] = [str(fr(t[f][0])), t[f][1]]
    return out


def run_session(rng, cnt, viols, hashes, samples, extreme=False, deep=False):
    heavy = heavy_ledger(rng, rng.choice([1500, 2500, 4000]))
    pool = []
    for _p in range(rng.randint(2, 4)):
        fxp = rng.random() < 0.3
        t_ = multi_year_ledger(rng, fxp)
        pool.append({"txs": t_, "fx": fxp, "dsl": render_dsl(t_), "json": to_json_text(t_, lambda t: t)})
    ctx = {"heavy": heavy, "heavy_p": 0.04 if deep else 0.08, "pool": pool}
    # deep: several hundred requests written in ONE burst, so that all of them are in flight at once
    n = rng.randint(250, 600) if deep else rng.randint(5, 120)
    reqs = []
    for i in range(n):
        rid = i + 1 if rng.random() < 0.7 else f"req-{i + 1}"
        r, meta = gen_request(rng, rid, ctx)
        reqs.append((r, meta))
    # --- history A: bursts (pipelined) ---------------------------------------------------------------
    sess = Session()
    i = 0
    depth_max = 0
    sentinels = []
    while i < len(reqs):
        b = len(reqs) if deep else rng.choice([1, 1, 2, 4, 8, 16, 32, 64])
        burst = [r for r, _ in reqs[i:i + b]]
        i += b
        sid = f"sentinel-{i}"
        burst.append({"jsonrpc": "2.0", "id": sid, "method": "ping"})
        sentinels.append(sid)
        sess.send(burst)
        depth_max = max(depth_max, len(burst))
        if rng.random() < 0.6:
            sess.wait_for([sid], 60)
    ids = [r["id"] for r, _ in reqs] + sentinels
    all_answered = sess.wait_for(ids, 300 if deep else 60)
    alive = sess.alive()
    end = sess.finish()
    hv, stats, resp = check_history(sess, end)
    cnt["sessions"] += 1
    if deep:
        cnt["deep_sessions(all requests in one write)"] += 1
    cnt["requests"] += stats["requests"]
    cnt["out_of_order_completions"] += stats["out_of_order_completions"]
    cnt["max_burst_seen"] = max(cnt["max_burst_seen"], depth_max)
    hashes.add(sha([r for r, _ in reqs])[:16])
    sig_case = {"op": "mcp-session", "requests": [r for r, _ in reqs][:200]}
    for name, detail in hv:
        viols.append({"clause": name, "signature": name, "detail": detail, "case": sig_case})
    if not alive and end["exit_before_close"] is not None:
        pass
    # --- history B: the same requests one at a time, in another order, on a fresh server (reference) --------
    order = list(range(len(reqs)))
    rng.shuffle(order)
    ref = Session()
    for j in order:
        r = reqs[j][0]
        ref.send([r])
        ref.wait_for([r["id"]], 30)
    rend = ref.finish()
    rv, _rs, rresp = check_history(ref, rend)
    for name, detail in rv:
        viols.append({"clause": name, "signature": name + ":sequential-reference", "detail": detail, "case": sig_case})
    fresh_checked = 0
    seen_years = {}
    for r, meta in reqs:
        if meta["class"] == "explain_matching" and meta.get("pooled"):
            ty = tax_year_of(pdate(meta["date"]))
            ys = seen_years.setdefault(meta["text_key"], set())
            if ys and ty not in ys:
                cnt["explain_same_ledger_other_year"] += 1
            ys.add(ty)
    for r, meta in reqs:
        k = Session.idkey(r["id"])
        cnt["class_" + meta["class"].split(":")[0]] += 1
        a, b = resp.get(k), rresp.get(k)
        if a is None or b is None:
            continue
        if "error" in a:
            cnt["error_responses"] += 1
            cnt["error_code_%s" % a["error"].get("code")] += 1
        if normalise(a) != normalise(b):
            viols.append({"clause": "answer-depends-on-history-or-schedule", "signature": "answer-depends-on-history-or-schedule:" + meta["class"].split(":")[0],
                          "detail": f"{k}: pipelined {json.dumps(normalise(a))[:160]} | sequential/shuffled {json.dumps(normalise(b))[:160]}",
                          "case": {"op": "mcp-request", "request": r}})
        else:
            cnt["answers_equal_reference"] += 1
        # --- per-tool oracles -------------------------------------------------------------------------------
        v2 = []
        c = meta["class"]
        if c.startswith("calculate_report") and not c.endswith("heavy"):
            oracle_calculate(meta, a, cnt, v2, k)
        elif c == "explain_matching":
            oracle_explain(meta, a, cnt, v2, k)
        elif c == "get_fx_rate":
            oracle_fx(meta, a, cnt, v2, k)
        elif c in ("parse_transactions", "convert_to_dsl"):
            oracle_parse_convert(meta, a, cnt, v2, k, c)
        elif c.startswith("json-soup"):
            cnt["json_soup_requests_answered"] += 1
            if "error" in a or a.get("result", {}).get("isError"):
                cnt["json_soup_answered_with_error"] += 1
        elif c.startswith("failing-input"):
            if "result" in a and not a["result"].get("isError") and not (c.endswith("empty") and meta.get("tool") == "parse_transactions"):
                if not (c.endswith("empty")):
                    v2.append(("failing-input-answered-with-result", f"{k} {c}: {json.dumps(a)[:160]}"))
            else:
                cnt["failing_inputs_answered_with_error"] += 1
        elif c in ("unknown-tool", "malformed-arguments"):
            if "error" not in a and not (a.get("result", {}).get("isError")):
                # some "malformed" argument objects are in fact acceptable to a tool (extra fields ignored)
                cnt["malformed_accepted(not judged)"] += 1
            else:
                cnt["malformed_or_unknown_answered_with_error"] += 1
        for name, detail in v2:
            viols.append({"clause": name, "signature": name, "detail": detail, "case": {"op": "mcp-request", "request": r}})
    # truly fresh-process reference for a sample
    sample = rng.sample(reqs, min(3, len(reqs)))
    for r, meta in sample:
        if meta["class"].endswith("heavy"):
            continue
        f = Session()
        f.send([r])
        f.wait_for([r["id"]], 60)
        fe = f.finish()
        _v, _s, fr_ = check_history(f, fe)
        k = Session.idkey(r["id"])
        if k in fr_ and k in resp:
            cnt["fresh_process_references"] += 1
            if normalise(fr_[k]) != normalise(resp[k]):
                viols.append({"clause": "answer-depends-on-history-or-schedule", "signature": "answer-differs-from-fresh-process",
                              "detail": f"{k}", "case": {"op": "mcp-request", "request": r}})
    # CLI oracle on a sample of calculate_report answers (DSL input, non-heavy)
    from ..clidrv import run_cli_report
    done = 0
    for r, meta in reqs:
        if done >= 2 or not meta["class"] == "calculate_report" or meta.get("mode") != "dsl":
            continue
        k = Session.idkey(r["id"])
        a = resp.get(k)
        if a is None:
            continue
        cr = run_cli_report(render_dsl(meta["txs"]), fmt="json", year=meta.get("year"))
        done += 1
        cnt["calculate_vs_cli"] += 1
        txt = result_text(a)
        if (cr["exit"] == 0) != (txt is not None):
            viols.append({"clause": "calculate-vs-cli-acceptance", "signature": "calculate-vs-cli-acceptance",
                          "detail": f"{k}: cli exit {cr['exit']} {cr['stderr'][:100]}", "case": {"op": "mcp-request", "request": r}})
        elif txt is not None:
            cj = json.loads(cr["stdout"])
            mj = json.loads(txt)
            if cj["tax_years"] != mj["tax_years"] or cj["holdings"] != mj["holdings"]:
                viols.append({"clause": "calculate-differs-from-cli", "signature": "calculate-differs-from-cli", "detail": k,
                              "case": {"op": "mcp-request", "request": r}})
    if len(samples) < 1:
        samples.append({"requests": len(reqs), "classes": dict(Counter(m["class"] for _, m in reqs)),
                        "out_of_order_completions": stats["out_of_order_completions"], "exit_status": end["exit"],
                        "first_request": reqs[0][0] if len(json.dumps(reqs[0][0])) < 400 else reqs[0][0]["method"]})


def run_sessions(desc):
    rng = rng_for(PROP, desc["seed"], "sessions", desc["shard"])
    cnt = Counter()
    viols = []
    hashes = set()
    samples = []
    for _ in range(desc["n"]):
        run_session(rng, cnt, viols, hashes, samples)
    return {"evaluations": cnt["requests"], "nontrivial_hashes": hashes, "counters": cnt, "violations": cap_viols(viols), "samples": samples}


def run_deep(desc):
    rng = rng_for(PROP, desc["seed"], "deep", desc["shard"])
    cnt = Counter()
    viols = []
    hashes = set()
    samples = []
    for _ in range(desc["n"]):
        run_session(rng, cnt, viols, hashes, samples, deep=True)
    return {"evaluations": cnt["requests"], "nontrivial_hashes": hashes, "counters": cnt, "violations": cap_viols(viols), "samples": []}


def run_embedded(desc):
    """Sessions under the embedded exemption table (no config file), as users run the server. The ledger pool reaches
    outside the table, so calculate_report without a year filter fails for some ledgers and a year filter decides for
    others. Judged: exactly-once history; pipelined answers == answers of a second server given the same requests one at
    a time in another order (so an answer depends on nothing but its arguments - not even the process); acceptance and,
    when accepted, tax years and holdings == the library under the embedded table."""
    rng = rng_for(PROP, desc["seed"], "embedded", desc["shard"])
    cnt, viols, hashes, samples = Counter(), [], set(), []
    for _ in range(desc["n"]):
        pool = []
        for _p in range(rng.randint(2, 3)):
            lo = rng.choice([2008, 2009, 2010, 2012, 2013, 2022, 2023])
            opts = Opts(capital=False, splits=False, n_sec=(1, 2), steps=(6, 12), long_gaps_p=0.7,
                        start=(dt.date(lo, 1, 1), dt.date(lo + 1, 1, 1)), last_date=dt.date(2031, 3, 1))
            t_ = gen_ledger(rng, opts)[0]
            pool.append({"txs": t_, "dsl": render_dsl(t_)})
        reqs = []
        for i in range(rng.randint(6, 30)):
            pl = rng.choice(pool)
            years = sorted({tax_year_of(pdate(x["date"])) for x in pl["txs"]})
            if rng.random() < 0.6:
                yf = rng.choice(years + [None, None, None]) if rng.random() < 0.6 else None
                args = {"transactions": pl["dsl"]}
                if yf is not None:
                    args["year"] = yf
                reqs.append((call(f"e{i}", "calculate_report", args), {"class": "calculate_report", "txs": pl["txs"], "year": yf}))
            else:
                sells = [x for x in pl["txs"] if x["kind"] == "SELL"]
                if not sells:
                    continue
                s_ = rng.choice(sells)
                reqs.append((call(f"e{i}", "explain_matching", {"transactions": pl["dsl"], "disposal_date": s_["date"],
                                                              "ticker": s_["ticker"]}), {"class": "explain_matching"}))
        if not reqs:
            continue
        a = Session(None)
        a.send([r for r, _ in reqs])
        a.wait_for([r["id"] for r, _ in reqs], 60)
        aend = a.finish()
        av, _st, aresp = check_history(a, aend)
        order = list(range(len(reqs)))
        rng.shuffle(order)
        b = Session(None)
        for j in order:
            b.send([reqs[j][0]])
            b.wait_for([reqs[j][0]["id"]], 30)
        bend = b.finish()
        bv, _st2, bresp = check_history(b, bend)
        cnt["embedded_sessions"] += 1
        cnt["requests"] += 2 * len(reqs)
        hashes.add(sha([r for r, _ in reqs])[:16])
        sess_case = {"op": "mcp-session", "requests": [r for r, _ in reqs], "config": "embedded"}
        for name, detail in av:
            viols.append({"clause": name, "signature": name, "detail": detail, "case": sess_case})
        for name, detail in bv:
            viols.append({"clause": name, "signature": name + ":sequential-reference", "detail": detail, "case": sess_case})
        for r, meta in reqs:
            k = Session.idkey(r["id"])
            x, y = aresp.get(k), bresp.get(k)
            if x is None or y is None:
                continue
            if normalise(x) != normalise(y):
                viols.append({"clause": "answer-depends-on-history-or-schedule",
                              "signature": "answer-depends-on-history-or-schedule:embedded-table:" + meta["class"],
                              "detail": f"{k}: {json.dumps(normalise(x))[:200]} | second server: {json.dumps(normalise(y))[:200]}",
                              "case": {"op": "mcp-request", "request": r, "config": "embedded", "repeat": 8}})
            else:
                cnt["embedded_answers_equal_reference"] += 1
            if meta["class"] == "calculate_report":
                o = probe().one(dict(lc.calc_case(meta["txs"], year=meta.get("year"), fx="bundled", exemptions="embedded"),
                                     outputs=["json"]))
                txt = result_text(x)
                if ("ok" in o) != (txt is not None):
                    viols.append({"clause": "calculate-vs-library-acceptance", "signature": "calculate-vs-library-acceptance:embedded-table",
                                  "detail": f"{k}: library {'accepts' if 'ok' in o else 'refuses: ' + o.get('err', {}).get('message', '')[:120]}, "
                                            f"server {'answers a report' if txt is not None else 'answers an error'}",
                                  "case": {"op": "mcp-request", "request": r, "config": "embedded"}})
                elif txt is not None:
                    cnt["embedded_reports_equal_library"] += 1
                    got, want = json.loads(txt), json.loads(o["ok"]["json"])
                    if got.get("tax_years") != want["tax_years"] or got.get("holdings") != want["holdings"]:
                        cnt["embedded_reports_equal_library"] -= 1
                        viols.append({"clause": "calculate-differs-from-report-json", "signature": "calculate-differs-from-report-json:embedded-table",
                                      "detail": k, "case": {"op": "mcp-request", "request": r, "config": "embedded"}})
                else:
                    cnt["embedded_unconfigured_year_errors"] += 1
    return {"evaluations": cnt["requests"], "nontrivial_hashes": hashes, "counters": cnt, "violations": cap_viols(viols), "samples": samples}


def run_envelope(desc):
    """Labelled extended class: envelope-level garbage (unknown JSON-RPC method, non-JSON line, overflowing
    magnitudes). The server must still answer everything else and stay up until stdin closes."""
    rng = rng_for(PROP, desc["seed"], "envelope", desc["shard"])
    cnt = Counter()
    viols = []
    hashes = set()
    for _, kind in enumerate(["unknown-method", "non-json-line", "overflow", "arguments-not-an-object"] * desc["n"]):
        sess = Session()
        pre = {"jsonrpc": "2.0", "id": "pre", "method": "ping"}
        sess.send([pre])
        sess.wait_for(["pre"], 30)
        if kind == "unknown-method":
            sess.send([{"jsonrpc": "2.0", "id": "odd", "method": rng.choice(["tools/frobnicate", "foo", "resources/delete"])}])
        elif kind == "arguments-not-an-object":
            sess.send([call("odd", rng.choice(TOOLS), rng.choice([[1, 2], "text", 7]))])
        elif kind == "non-json-line":
            sess.send([], raw_lines=[rng.choice(["hello", "{not json", "\x00\x01"])])
        else:
            sess.send([call("odd", "calculate_report", {"transactions": "2024-01-01 BUY X 70000000000000000000000000000 @ 70000000000000000000000000000\n2024-02-01 SELL X 1 @ 1"})])
        post = {"jsonrpc": "2.0", "id": "post", "method": "ping"}
        sess.send([post])
        sess.wait_for(["post", "odd"] if kind != "non-json-line" else ["post"], 3)
        end = sess.finish()
        hv, stats, resp = check_history(sess, end)
        cnt["envelope_sessions_" + kind] += 1
        hashes.add(kind + str(_))
        for name, detail in hv:
            viols.append({"clause": name, "signature": f"{name}:{kind}", "detail": detail,
                          "case": {"op": "mcp-envelope", "kind": kind}})
    return {"evaluations": desc["n"] * 4, "nontrivial_hashes": hashes, "counters": cnt, "violations": viols, "samples": []}


def run_shard(desc):
    return {"sessions": run_sessions, "embedded": run_embedded, "envelope": run_envelope, "deep": run_deep}[desc["kind"]](desc)


def replay(case):
    cfg = None if case.get("config") == "embedded" else ALL_YEARS_TOML
    if case.get("op") == "mcp-request":
        r = case["request"]
        out, answers, last = [], [], None
        for _i in range(int(case.get("repeat", 1))):     # fresh server processes: an answer may depend on nothing else
            s = Session(cfg)
            s.send([r])
            s.wait_for([r["id"]], 60)
            e = s.finish()
            v, st, resp = check_history(s, e)
            out += [{"clause": n, "signature": n, "detail": d_} for n, d_ in v]
            answers.append(json.dumps(normalise(resp.get(Session.idkey(r["id"]), {})), sort_keys=True))
            last = {"responses": resp, "end": e}
        if len(set(answers)) > 1:
            out.append({"clause": "answer-depends-on-history-or-schedule",
                        "signature": "answer-depends-on-history-or-schedule:embedded-table:calculate_report"
                        if case.get("config") == "embedded" else "answer-differs-from-fresh-process",
                        "detail": f"{len(set(answers))} different answers from {len(answers)} fresh servers: "
                                  + " | ".join(sorted(set(a_[:160] for a_ in answers)))})
        return out, last
    if case.get("op") == "mcp-session":
        # the recorded requests again, pipelined in bursts of 16 with a sentinel ping after each, on a fresh server
        s = Session(cfg)
        reqs = case["requests"]
        ids = []
        for i in range(0, len(reqs), 16):
            burst = list(reqs[i:i + 16]) + [{"jsonrpc": "2.0", "id": f"sentinel-{i}", "method": "ping"}]
            ids += [r["id"] for r in burst if "id" in r]
            s.send(burst)
        s.wait_for(ids, 60)
        e = s.finish()
        v, st, resp = check_history(s, e)
        return [{"clause": n, "signature": n, "detail": d_} for n, d_ in v], {"stats": st, "end": e}
    return [], {"note": "envelope-class cases: re-run the shard"}


THRESHOLDS = {"sessions": 30, "requests": 1500, "out_of_order_completions": 1, "answers_equal_reference": 1000,
              "disposals_explained": 50, "calculate_vs_library": 100, "fx_rates_equal_table": 30, "calculate_vs_cli": 20,
              "fresh_process_references": 40, "failing_inputs_answered_with_error": 30,
              "json_soup_answered_with_error": 150, "explain_same_ledger_other_year": 20}
RULE = ("sessions of 5-120 requests over the five tools, tools/list, resources/list|read, ping, unknown tools and "
        "malformed arguments, sent in single-write bursts of 1-64 mixing multi-thousand-line ledgers with trivial calls "
        "(so completions overtake), each followed by a sentinel ping; offline history check (exactly one response per id, "
        "no unknown ids, no torn lines, alive until EOF, exit 0), comparison with a sequential shuffled reference "
        "session and fresh-process references, and per-tool oracles (library report, CLI report, rate table, re-read of "
        "parse/convert output, explain vs report); distinct by session hash")
