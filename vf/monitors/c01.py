"""C01 - Same Day -> 30-day -> Section 104 identification, against the exact model."""
from __future__ import annotations

import datetime as dt
import random
from collections import Counter
from fractions import Fraction

from ..gen.ledger import Opts, gen_ledger
from ..model import hmrc
from ..probe import probe
from ..util import cap_viols, rng_for, sha, iso, ZERO, TOL_10DP, TOL_FINE
from . import ledger_core as lc

PROP = "C01"
MOD = __name__

CLASSES = {
    # strict classes: no split/capital event on a trade date of the same security
    "plain": dict(capital=False, splits=False, n_sec=(1, 3)),
    "splits": dict(capital=False, splits=True, n_sec=(1, 2)),
    "capital": dict(capital=True, splits=True, n_sec=(1, 2)),
    "dense": dict(capital=False, splits=True, n_sec=(1, 1), steps=(8, 20), templates_p=0.6),
}


def plan(tier, seed):
    per = 250
    if tier == "quick":
        n = {"plain": 30, "splits": 30, "capital": 16, "dense": 30}
    else:
        n = {"plain": 900, "splits": 900, "capital": 500, "dense": 900}
    shards = [{"kind": "edges", "seed": seed, "part": i, "parts": 16} for i in range(16)]
    if tier == "quick":
        # a second, seed-chosen block of four tax years somewhere in 1900..2100 (century leap-year rules, other weekdays)
        y0 = random.Random(f"C01:edges:{seed}").randint(1900, 2096)
        shards += [{"kind": "edges", "seed": seed, "part": i, "parts": 8, "from": f"{y0}-04-06", "to": f"{y0 + 4}-04-05"}
                   for i in range(8)]
    else:
        # every sale date of tax years 1900/01 .. 2099/2100
        for y0 in range(1900, 2100, 10):
            shards += [{"kind": "edges", "seed": seed, "part": i, "parts": 4, "from": f"{y0}-04-06",
                        "to": f"{y0 + 10}-04-05"} for i in range(4)]
    for cls, k in n.items():
        for i in range(k):
            shards.append({"kind": "random", "cls": cls, "seed": seed, "shard": i, "n": per})
    return shards


def edge_cases(part, parts, first="2019-04-06", last="2025-04-05"):
    """Every sale date D in first..last (default 2019-04-06..2025-04-05) x acquisition offset in {0,1,29,30,31}."""
    D = dt.date.fromisoformat(first)
    end = dt.date.fromisoformat(last)
    i = 0
    out = []
    while D <= end:
        if i % parts == part:
            for off in (0, 1, 29, 30, 31):
                E = D + dt.timedelta(days=off)
                txs = [
                    {"date": iso(D - dt.timedelta(days=40)), "ticker": "X", "kind": "BUY", "amount": "100",
                     "price": ["1", "GBP"], "fees": ["0", "GBP"]},
                    {"date": iso(D), "ticker": "X", "kind": "SELL", "amount": "50",
                     "price": ["2", "GBP"], "fees": ["0", "GBP"]},
                    {"date": iso(E), "ticker": "X", "kind": "BUY", "amount": "30",
                     "price": ["3", "GBP"], "fees": ["0", "GBP"]},
                ]
                out.append((txs, {"edge", f"off{off}"}))
        D += dt.timedelta(days=1)
        i += 1
    return out


def oracle(txs, obs, cnt: Counter, sets):
    """Compare one observation with the model. Returns list of violation dicts."""
    v = []
    model = hmrc.evaluate(txs)
    if "panic" in obs:
        cnt["panic(routed to C15)"] += 1
        return v
    if model["uncovered"]:
        cnt["model_uncovered(routed to C05)"] += 1
        return v
    if "err" in obs:
        cnt["tool_rejected_covered(routed to C05)"] += 1
        return v
    rep = lc.parse_report(obs["ok"]["report"])
    capital = lc.has_kind(txs, "CAPRETURN", "ACCUMULATION")
    tool = {(dd["date"], dd["ticker"]): dd for dd in lc.all_disposals(rep)}
    want = {}
    for tk, r in model["ident"].items():
        for dd in r["disposals"]:
            want[(dd["date"], tk)] = dd
    if set(tool) != set(want):
        v.append({"clause": "disposal-set", "detail": f"tool {sorted(map(str, set(tool) - set(want)))} "
                  f"model-only {sorted(map(str, set(want) - set(tool)))}"})
        return v
    claims = Counter()
    for key, w in want.items():
        t = tool[key]
        tl = lc.merged_legs(t["legs"])
        wl = lc.merged_legs(w["legs"])
        cnt["disposals"] += 1
        for l in t["legs"]:
            if l["rule"] == "BedAndBreakfast":
                gap = (l["acq"] - t["date"]).days if l["acq"] else None
                if gap is None or gap < 1 or gap > 30:
                    v.append({"clause": "window", "detail": f"{key}: 30-day leg with acquisition gap {gap}"})
        tk_ = [(a["rule"], a["acq"]) for a in tl]
        wk_ = [(a["rule"], a["acq"]) for a in wl]
        if tk_ != wk_:
            v.append({"clause": "legs-structure",
                      "detail": f"{key[1]} {key[0]}: tool legs {fmt_legs(tl)} model legs {fmt_legs(wl)}"})
            continue
        for a, b in zip(tl, wl):
            cnt["legs_" + a["rule"]] += 1
            if a["rule"] == "BedAndBreakfast":
                gap = (a["acq"] - key[0]).days
                sets.setdefault("offsets", set()).add(gap)
                claims[(key[1], a["acq"])] += 1
            if not lc.close(a["qty"], b["qty"], TOL_FINE, b["qty"]):
                v.append({"clause": "leg-quantity",
                          "detail": f"{key[1]} {key[0]} {a['rule']} {a['acq']}: tool {a['qty']} model {b['qty']}"})
            elif not capital and not lc.close(a["cost"], b["cost"], TOL_FINE * 1000, b["cost"] * 1000):
                v.append({"clause": "leg-cost",
                          "detail": f"{key[1]} {key[0]} {a['rule']} {a['acq']}: tool {float(a['cost'])!r} "
                                    f"model {float(b['cost'])!r} (diff {float(a['cost'] - b['cost']):.3e})"})
        if not lc.close(t["gross"], w["gross"], TOL_10DP, w["gross"]):
            v.append({"clause": "gross-proceeds", "detail": f"{key}: tool {t['gross']} model {w['gross']}"})
        if not lc.close(t["net"], w["net"], TOL_10DP, w["net"]):
            v.append({"clause": "net-proceeds", "detail": f"{key}: tool {t['net']} model {w['net']}"})
        if not capital:
            tg = sum((l["gain"] for l in t["legs"]), ZERO)
            if not lc.close(tg, w["gain"], TOL_10DP, abs(w["net"]) + abs(w["cost"])):
                v.append({"clause": "gain", "detail": f"{key}: tool {float(tg)!r} model {float(w['gain'])!r}"})
    if any(c >= 2 for c in claims.values()):
        cnt["ledgers_competing_claims"] += 1
    # reservation in play: an acquisition day that has its own disposal and is claimed by an earlier one
    for (tk, acq), c in claims.items():
        day = next((dy for dy in model["days"][tk] if dy.date == acq), None)
        if day is not None and day.S > 0:
            cnt["ledgers_reservation_in_play"] += 1
            break
    # split inside a window
    for key, w in want.items():
        for l in w["legs"]:
            if l["rule"] == "BedAndBreakfast" and l.get("qty_acq_units") is not None \
                    and l["qty_acq_units"] != l["qty"]:
                cnt["ledgers_split_in_window"] += 1
                break
        else:
            continue
        break
    return v


def fmt_legs(legs):
    return [(a["rule"], str(a["acq"]), str(a["qty"])) for a in legs]


def signature(viol, txs):
    return f"{viol['clause']}"


def run_cases(cases):
    """cases: list of (txs, feats). Returns shard result."""
    cnt = Counter()
    sets = {}
    viols = []
    hashes = set()
    samples = []
    p = probe()
    reqs = [lc.calc_case(txs, front=True) for txs, _ in cases]
    cnt["ledgers_entered_as_DSL_text(random lexical style)"] += sum(1 for r in reqs if "dsl" in r)
    obs = p.run(reqs)
    for (txs, feats), o in zip(cases, obs):
        vs = oracle(txs, o, cnt, sets)
        for f in feats:
            cnt["feat_" + f] += 1
        if "ok" in o and any(y["disposals"] for y in o["ok"]["report"]["tax_years"]):
            hashes.add(sha(txs)[:16])
        for x in vs:
            x["signature"] = signature(x, txs)
            x["case"] = {"op": "calc", "txs": txs}
            viols.append(x)
        if len(samples) < 2 and "ok" in o and len(txs) <= 12 and not vs and "edge" not in feats:
            samples.append({"ledger": lc.brief(txs), "legs_seen": [
                (dd["date"], dd["ticker"], [(m["rule"], m["quantity"], m["acquisition_date"]) for m in dd["matches"]])
                for y in o["ok"]["report"]["tax_years"] for dd in y["disposals"]]})
    return {"evaluations": len(cases), "nontrivial_hashes": hashes, "counters": cnt,
            "violations": cap_viols(viols), "samples": samples,
            "sets": {k: set(v) for k, v in sets.items()}}


def run_shard(desc):
    if desc["kind"] == "edges":
        return run_cases(edge_cases(desc["part"], desc["parts"], desc.get("from", "2019-04-06"),
                                    desc.get("to", "2025-04-05")))
    rng = rng_for(PROP, desc["seed"], desc["cls"], desc["shard"])
    opts = Opts(**CLASSES[desc["cls"]])
    cases = [gen_ledger(rng, opts) for _ in range(desc["n"])]
    return run_cases(cases)


def replay(case):
    cnt = Counter()
    o = probe().one(lc.calc_case(case["txs"], front=True))
    vs = oracle(case["txs"], o, cnt, {})
    for x in vs:
        x["signature"] = signature(x, case["txs"])
    return vs, o


THRESHOLDS = {"legs_BedAndBreakfast": 500, "ledgers_competing_claims": 100, "ledgers_split_in_window": 50}
RULE = ("seeded shape-directed ledgers (1-3 securities; same-day, 30-day, competing-claim, reservation, "
        "split-in-window episodes) plus the complete window-edge suite (every sale date 2019-04-06..2025-04-05 "
        "x offsets 0,1,29,30,31); non-trivial = accepted ledger with >=1 disposal, distinct by ledger hash")
