"""C09 - securities are independent; tickers are case-insensitive in DSL and JSON input."""
from __future__ import annotations

import json
from collections import Counter, defaultdict
from fractions import Fraction

from ..gen.ledger import Opts, gen_ledger, render_dsl
from ..probe import probe
from ..util import cap_viols, rng_for, sha, ZERO, TOL_10DP
from . import ledger_core as lc

PROP = "C09"
CLASSES = {
    "collide": dict(capital=True, splits=True, n_sec=(2, 6), steps=(4, 10), templates_p=0.5,
                    long_gaps_p=0.05),
    "many": dict(capital=True, splits=True, n_sec=(4, 6), steps=(3, 8)),
}


def plan(tier, seed):
    k = 64 if tier == "quick" else 600
    shards = [{"kind": "proj", "cls": c, "seed": seed, "shard": i, "n": 100} for c in CLASSES for i in range(k)]
    shards += [{"kind": "case", "seed": seed, "shard": i, "n": 150} for i in range(4 if tier == "quick" else 100)]
    return shards


def judge_proj(txs, cnt, viols, hashes, samples):
    """One ledger against its per-security projections. Returns the number of executions observed."""
    p = probe()
    tickers = sorted({t["ticker"] for t in txs})
    reqs = [lc.calc_case(txs)] + [lc.calc_case([t for t in txs if t["ticker"] == tk]) for tk in tickers]
    obs = p.run(reqs)
    n_eval = len(reqs)
    whole, parts = obs[0], dict(zip(tickers, obs[1:]))
    if any("panic" in o for o in obs):
        cnt["panic(routed to C15)"] += 1
        return n_eval
    ok_parts = all("ok" in o for o in parts.values())
    case = {"op": "calc", "txs": txs}
    if ("ok" in whole) != ok_parts:
        rej = {tk: o["err"]["message"][:120] for tk, o in parts.items() if "err" in o}
        # the only known way to get here on a correct-looking tree: a ~1e-26 decimal shortfall (F3b) whose presence
        # depends on how same-day SELL lines were grouped (F16); anything else keeps the bare signature
        from .c05 import residue_class
        msgs = [whole["err"]["message"]] if "err" in whole else [o["err"]["message"] for o in parts.values() if "err" in o]
        rcs = {residue_class(txs, m_) for m_ in msgs}
        sfx = ""
        if len(rcs) == 1 and next(iter(rcs)).startswith("holding-short-by-decimal-residue:") \
                and not next(iter(rcs)).endswith(":none"):
            sfx = ":" + next(iter(rcs))
        viols.append({"clause": "acceptance-not-conjunction", "signature": "acceptance-not-conjunction" + sfx,
                      "detail": f"whole accepted={'ok' in whole} ({whole.get('err', {}).get('message', '')[:120]}); "
                                f"per-security rejections: {rej}", "case": case})
        return n_eval
    if "ok" not in whole:
        cnt["all_rejected_consistently"] += 1
        return n_eval
    W = lc.parse_report(whole["ok"]["report"])
    hashes.add(sha(txs)[:16])
    # securities active on the same date
    bydate = defaultdict(set)
    for t in txs:
        if t["kind"] in ("BUY", "SELL"):
            bydate[t["date"]].add(t["ticker"])
    if any(len(s) >= 2 for s in bydate.values()):
        cnt["ledgers_with_same_date_collisions"] += 1
    tot = defaultdict(lambda: defaultdict(lambda: ZERO))
    diffs = []
    f16 = []
    for tk in tickers:
        P = lc.parse_report(parts[tk]["ok"]["report"])
        # disposals & legs of this security: exact
        wd = {(d["date"]): d for y in W["years"] for d in y["disposals"] if d["ticker"] == tk}
        pd_ = {(d["date"]): d for y in P["years"] for d in y["disposals"]}
        if list(wd) != list(pd_):
            diffs.append(f"{tk}: disposal dates whole={[str(x) for x in wd]} alone={[str(x) for x in pd_]}")
            continue
        f16_dates = {d_ for (t_, d_) in lc.nonconsecutive_sells(txs) if t_ == tk}
        for k in wd:
            a, b = wd[k], pd_[k]
            cnt["disposals_compared"] += 1
            la = [(l["rule"], l["acq"], l["qty"], l["cost"], l["gain"]) for l in a["legs"]]
            lb = [(l["rule"], l["acq"], l["qty"], l["cost"], l["gain"]) for l in b["legs"]]
            if (a["qty"], a["gross"], a["net"]) == (b["qty"], b["gross"], b["net"]) and la == lb:
                continue
            # not identical: compare the merged view within decimal-residue tolerance
            one = lambda d_: {"years": [{"start_year": 0, "period": "", "disposals": [d_], "total_gain": ZERO,
                                         "total_loss": ZERO, "net_gain": ZERO, "exempt_amount": ZERO,
                                         "taxable_gain": ZERO, "disposal_count": 1, "dividend_income": ZERO,
                                         "dividend_tax_paid": ZERO}], "holdings": {}}
            md = lc.compare_reports(one(a), one(b), exact=False, leg_gains=False, year_totals=False,
                                    dividends=False, what=("years",), label=("whole", "alone"))
            if md:
                diffs.append(f"{tk} {k}: " + "; ".join(md[:2]))
            elif f16_dates:
                f16.append(f"{tk} {k}")
            else:
                diffs.append(f"{tk} {k}: leg lists differ whole={[(x[0], str(x[1]), float(x[2]), float(x[3])) for x in la]} "
                             f"alone={[(x[0], str(x[1]), float(x[2]), float(x[3])) for x in lb]}")
        hw = W["holdings"].get(tk)
        hp = P["holdings"].get(tk)
        if hw != hp and not (hw and hp and lc.close(hw[0], hp[0], lc.TOL_FINE * 1000) and lc.close(hw[1], hp[1], lc.TOL_FINE * 10 ** 4, hp[1] * 1000)):
            diffs.append(f"{tk}: holding whole={hw} alone={hp}")
        for y in P["years"]:
            for f in ("total_gain", "total_loss", "gross_proceeds"):
                tot[y["start_year"]][f] += y[f]
            tot[y["start_year"]]["count"] += y["disposal_count"]
    for y in W["years"]:
        t = tot.get(y["start_year"])
        if t is None:
            diffs.append(f"{y['period']}: in whole report only")
            continue
        for f in ("total_gain", "total_loss", "gross_proceeds"):
            if not lc.close(y[f], t[f], TOL_10DP, t[f]):
                diffs.append(f"{y['period']}: {f} whole={float(y[f])!r} sum of parts={float(t[f])!r}")
        if y["disposal_count"] != t["count"]:
            diffs.append(f"{y['period']}: disposal_count whole={y['disposal_count']} parts={t['count']}")
    if set(tot) - {y["start_year"] for y in W["years"]}:
        diffs.append(f"years only in per-security reports: {sorted(set(tot) - {y['start_year'] for y in W['years']})}")
    if f16:
        viols.append({"clause": "legs-follow-sell-lines",
                      "signature": "F16:per-sell-line-legs-differ-only-with-nonconsecutive-same-day-sells",
                      "detail": f"another security's line between two same-day SELLs regroups the legs of {f16[:3]}",
                      "case": case})
    if diffs:
        viols.append({"clause": "whole-differs-from-parts", "signature": "whole-differs-from-parts",
                      "detail": "; ".join(diffs[:4]), "case": case})
    elif len(samples) < 2 and len(txs) <= 14 and len(tickers) >= 2:
        samples.append({"ledger": lc.brief(txs), "securities": tickers, "result": "whole == combination of parts"})

    return n_eval


def run_proj(desc):
    rng = rng_for(PROP, desc["seed"], desc["cls"], desc["shard"])
    opts = Opts(**CLASSES[desc["cls"]])
    cnt = Counter()
    viols = []
    hashes = set()
    samples = []
    p = probe()
    n_eval = 0
    for _ in range(desc["n"]):
        txs, _f = gen_ledger(rng, opts)
        # make tickers collide on dates in several stateful mechanisms: already interleaved by date
        n_eval += judge_proj(txs, cnt, viols, hashes, samples)
    return {"evaluations": n_eval, "nontrivial_hashes": hashes, "counters": cnt, "violations": cap_viols(viols), "samples": samples}


def case_variant(rng, s):
    return "".join(c.upper() if rng.random() < 0.5 else c.lower() for c in s)


def to_json_text(txs, casefn):
    """Own rendering of the tool's JSON input format."""
    out = []
    for t in txs:
        def m(x):
            return x[0] if x[1] == "GBP" else {"amount": x[0], "currency": x[1]}
        o = {"date": t["date"], "ticker": casefn(t["ticker"]), "action": t["kind"]}
        k = t["kind"]
        if k in ("BUY", "SELL"):
            o.update(amount=t["amount"], price=m(t["price"]), fees=m(t["fees"]))
        elif k == "DIVIDEND":
            o.update(total_value=m(t["total"]), tax_paid=m(t["tax"]))
        elif k == "ACCUMULATION":
            o.update(amount=t["amount"], total_value=m(t["total"]), tax_paid=m(t["tax"]))
        elif k == "CAPRETURN":
            o.update(amount=t["amount"], total_value=m(t["total"]), fees=m(t["fees"]))
        else:
            o.update(ratio=t["ratio"])
        out.append(o)
    return json.dumps(out)


def run_case(desc):
    """Mixed-case tickers in DSL and JSON input denote the same security."""
    rng = rng_for(PROP, desc["seed"], "case", desc["shard"])
    cnt = Counter()
    viols = []
    hashes = set()
    samples = []
    p = probe()
    n_eval = 0
    for _ in range(desc["n"]):
        txs, _f = gen_ledger(rng, Opts(capital=True, splits=True, n_sec=(1, 3), steps=(3, 9)))
        for t in txs:
            pass
        def cf(tk):
            return case_variant(rng, tk)
        dsl_lines = render_dsl(txs).splitlines()
        varied = []
        for line, t in zip(dsl_lines, txs):
            parts = line.split(" ")
            parts[2] = cf(parts[2])
            varied.append(" ".join(parts))
        reqs = [lc.calc_case(txs), lc.calc_case(dsl="\n".join(varied) + "\n"),
                lc.calc_case(json_text=to_json_text(txs, cf)),
                {"op": "parse", "text": "\n".join(varied) + "\n"}]
        obs = p.run(reqs)
        n_eval += 4
        base = obs[0]
        hashes.add(sha(varied)[:16])
        for name, o in (("dsl", obs[1]), ("json", obs[2])):
            cnt["case_variant_inputs_" + name] += 1
            if ("ok" in base) != ("ok" in o):
                viols.append({"clause": "case-variant-acceptance", "signature": "case-variant-acceptance:" + name,
                              "detail": f"upper-case accepted={'ok' in base}, mixed-case {name} input: {str(o.get('err'))[:200]}",
                              "case": {"op": "calc", "txs": txs, "dsl": "\n".join(varied)}})
                continue
            if "ok" not in base:
                continue
            A, B = lc.parse_report(base["ok"]["report"]), lc.parse_report(o["ok"]["report"])
            diffs = lc.compare_reports(A, B, exact=True, label=("upper", "mixed-" + name))
            if diffs:
                viols.append({"clause": "case-variant-differs", "signature": "case-variant-differs:" + name,
                              "detail": "; ".join(diffs[:3]), "case": {"op": "calc", "txs": txs, "dsl": "\n".join(varied)}})
        if "ok" in obs[3]:
            for t, w in zip(obs[3]["ok"], txs):
                if t["ticker"] != w["ticker"].upper():
                    viols.append({"clause": "parse-ticker-not-normalised", "signature": "parse-ticker-not-normalised",
                                  "detail": f"{t['ticker']} vs {w['ticker']}", "case": {"op": "parse", "text": "\n".join(varied)}})
                    break
        # JSON input accepts any string as a ticker (the DSL grammar only ASCII): letters outside ASCII have case too
        names = {}
        pool = ["NESTLÉ", "ØRSTED", "SOCIÉTÉ", "ÅKER", "MÜNCHEN", "PEÑA", "ÇA", "ÉÉ1"]
        for tk in sorted({t["ticker"] for t in txs}):
            names[tk] = pool[len(names) % len(pool)] + (str(len(names)) if len(names) >= len(pool) else "")
        ren = [dict(t, ticker=names[t["ticker"]]) for t in txs]
        ob, ov = p.run([lc.calc_case(json_text=to_json_text(ren, lambda t: t)),
                        lc.calc_case(json_text=to_json_text(ren, cf))])
        n_eval += 2
        cnt["case_variant_inputs_json_non_ascii"] += 1
        jcase = {"op": "calc_json_pair", "upper": to_json_text(ren, lambda t: t), "mixed": to_json_text(ren, cf)}
        if ("ok" in ob) != ("ok" in ov):
            viols.append({"clause": "case-variant-acceptance", "signature": "case-variant-acceptance:json-non-ascii",
                          "detail": f"upper-case accepted={'ok' in ob}, mixed-case: {str(ov.get('err'))[:200]}", "case": jcase})
        elif "ok" in ob:
            diffs = lc.compare_reports(lc.parse_report(ob["ok"]["report"]), lc.parse_report(ov["ok"]["report"]), exact=True,
                                       label=("upper", "mixed-json-non-ascii"))
            if diffs:
                viols.append({"clause": "case-variant-differs", "signature": "case-variant-differs:json-non-ascii",
                              "detail": "; ".join(diffs[:3]), "case": jcase})
        if len(samples) < 1:
            samples.append({"mixed_case_dsl": varied[:6]})
    return {"evaluations": n_eval, "nontrivial_hashes": hashes, "counters": cnt, "violations": cap_viols(viols), "samples": samples}


def run_shard(desc):
    return run_proj(desc) if desc["kind"] == "proj" else run_case(desc)


def replay(case):
    if case.get("op") == "calc_json_pair":
        ob, ov = probe().run([lc.calc_case(json_text=case["upper"]), lc.calc_case(json_text=case["mixed"])])
        vs = []
        if ("ok" in ob) != ("ok" in ov):
            vs.append({"clause": "case-variant-acceptance", "signature": "case-variant-acceptance:json-non-ascii",
                       "detail": f"upper accepted={'ok' in ob}; mixed: {str(ov.get('err'))[:200]}"})
        elif "ok" in ob:
            diffs = lc.compare_reports(lc.parse_report(ob["ok"]["report"]), lc.parse_report(ov["ok"]["report"]), exact=True,
                                       label=("upper", "mixed"))
            if diffs:
                vs.append({"clause": "case-variant-differs", "signature": "case-variant-differs:json-non-ascii", "detail": "; ".join(diffs[:3])})
        return vs, {"upper": ob, "mixed": ov}
    txs = case["txs"]
    tickers = sorted({t["ticker"] for t in txs})
    obs = probe().run([lc.calc_case(txs)] + [lc.calc_case([t for t in txs if t["ticker"] == tk]) for tk in tickers])
    viols = []
    judge_proj(txs, Counter(), viols, set(), [])
    return viols, {"whole": obs[0], "parts": dict(zip(tickers, obs[1:]))}


THRESHOLDS = {"ledgers_with_same_date_collisions": 500, "disposals_compared": 5000, "case_variant_inputs_dsl": 300,
              "case_variant_inputs_json": 300, "case_variant_inputs_json_non_ascii": 300}
RULE = ("ledgers over 2-6 securities interleaved by date (30-day claims, reservations, splits and capital events in "
        "several securities at once) vs the per-security projections, compared exactly (Decimal ==) on disposals, legs "
        "and holdings and additively on year totals; plus mixed-case ticker spellings through the DSL and JSON input "
        "paths; distinct by ledger hash")
