"""C16 - output is deterministic (byte-identical across processes) and canonically ordered."""
from __future__ import annotations

import datetime as dt
import hashlib
import json
import re
from collections import Counter, defaultdict
from fractions import Fraction

from ..gen.ledger import render_dsl
from ..model import schwab as sm
from ..probe import probe
from ..util import cap_viols, rng_for, sha, iso, dstr, d as pdate
from . import ledger_core as lc

PROP = "C16"


def plan(tier, seed):
    k = 24 if tier == "quick" else 300
    shards = [{"kind": "hooked", "seed": seed, "shard": i, "n": 12} for i in range(k)]
    kc = 32 if tier == "quick" else 400
    shards += [{"kind": "procs", "seed": seed, "shard": i} for i in range(kc)]
    return shards


NAMES = ["AAA", "AAB", "ZZZ", "M1", "M2", "M10", "B", "BA", "AB", "A", "Z9", "Q", "VOD", "TSLA", "X1", "X10", "X2",
         "LONGNAME", "K", "KK", "KKK", "A1", "A10", "A2", "ZA", "AZ", "T", "U", "V", "W"]


def wide_ledger(rng, n_sec=None, years=None):
    """Many securities, many disposals on one date, many tax years."""
    n = n_sec or rng.randint(10, 40)
    tickers = rng.sample(NAMES, min(n, len(NAMES))) + [f"S{i}" for i in range(max(0, n - len(NAMES)))]
    ny = years or rng.randint(5, 15)
    y0 = rng.randint(1995, 2010)
    txs = []
    for tk in tickers:
        txs.append({"date": iso(dt.date(y0, rng.randint(1, 3), rng.randint(1, 28))), "ticker": tk, "kind": "BUY",
                    "amount": str(rng.randint(1000, 5000)), "price": [dstr(Fraction(rng.randint(100, 9999), 100)), "GBP"],
                    "fees": [dstr(Fraction(rng.randint(0, 500), 100)), "GBP"]})
    for y in range(y0, y0 + ny):
        for _ in range(rng.randint(1, 3)):
            D = dt.date(y, rng.randint(4, 12), rng.randint(6, 28))
            for tk in tickers:
                if rng.random() < 0.4:
                    txs.append({"date": iso(D), "ticker": tk, "kind": "SELL", "amount": str(rng.randint(1, 40)),
                                "price": [dstr(Fraction(rng.randint(100, 9999), 100)), "GBP"], "fees": ["0", "GBP"]})
                if rng.random() < 0.1:
                    txs.append({"date": iso(D), "ticker": tk, "kind": "DIVIDEND", "total": [str(rng.randint(1, 99)), "GBP"], "tax": ["0", "GBP"]})
                if rng.random() < 0.05:
                    txs.append({"date": iso(D + dt.timedelta(days=3)), "ticker": tk, "kind": "BUY", "amount": str(rng.randint(1, 30)),
                                "price": [str(rng.randint(1, 90)), "GBP"], "fees": ["0", "GBP"]})
                if rng.random() < 0.04:
                    txs.append({"date": iso(D), "ticker": tk, "kind": "ACCUMULATION", "amount": "1",
                                "total": [str(rng.randint(1, 50)), "GBP"], "tax": ["0", "GBP"]})
                if rng.random() < 0.02:
                    txs.append({"date": iso(D + dt.timedelta(days=40)), "ticker": tk, "kind": "SPLIT", "ratio": "2"})
    # line order of the input: fully shuffled; chronological with the lines of one date in arbitrary order (the common
    # hand-kept ledger: a code path that "skips the sort when already sorted" is only reached by this one);
    # reverse-chronological; grouped by security
    rng.shuffle(txs)
    how = rng.choice(["shuffled", "by_date_only", "by_date_only", "reverse_date", "by_ticker"])
    if how == "by_date_only":
        txs.sort(key=lambda t: t["date"])
    elif how == "reverse_date":
        txs.sort(key=lambda t: t["date"], reverse=True)
    elif how == "by_ticker":
        txs.sort(key=lambda t: t["ticker"])
    return txs


def order_predicates(rep_wire, plain=None):
    """Canonical-order violations in one wire report (+ its plain text)."""
    v = []
    ys = [y["start_year"] for y in rep_wire["tax_years"]]
    if ys != sorted(ys):
        v.append(f"tax years not ascending: {ys}")
    for y in rep_wire["tax_years"]:
        keys = [(d["date"], d["ticker"]) for d in y["disposals"]]
        if keys != sorted(keys):
            v.append(f"{y['period']}: disposals not by (date, ticker): {keys[:6]}")
    hs = [h["ticker"] for h in rep_wire["holdings"]]
    if hs != sorted(hs):
        v.append(f"holdings not by ticker: {hs[:10]}")
    if plain:
        tl = re.findall(r"^(\d\d)/(\d\d)/(\d{4}) (?:BUY|SELL) \S+ (\S+) @", plain, flags=re.M)
        keys = [(y, m, d_, tk) for d_, m, y, tk in tl]
        if keys != sorted(keys):
            v.append("text-report transactions not by (date, ticker)")
        el = re.findall(r"^(\d\d)/(\d\d)/(\d{4}) (?:DIVIDEND|ACCUMULATION|CAPRETURN|SPLIT|UNSPLIT) (\S+) ", plain, flags=re.M)
        ekeys = [(y, m, d_, tk) for d_, m, y, tk in el]
        if ekeys != sorted(ekeys):
            v.append("text-report asset events not by (date, ticker)")
        hl = re.findall(r"^(\S+): \S+ units at", plain, flags=re.M)
        if hl != sorted(hl):
            v.append(f"text-report holdings not by ticker: {hl[:8]}")
    return v


def order_kind(msg):
    """'2003/04: disposals not by (date, ticker): ...' -> 'disposals' (one signature per kind of ordering, not per year)."""
    head = msg.split(" not")[0]
    return re.sub(r"^\d{4}/\d{2}: ", "", head)[:40]


def run_hooked(desc):
    """Library boundary with H3: record the pre-sort order of every HashMap drain; re-run with the failpoint
    permuting each drain under 8 seeds: reports must be identical and canonically ordered."""
    rng = rng_for(PROP, desc["seed"], "hooked", desc["shard"])
    cnt = Counter()
    viols = []
    hashes = set()
    sets = defaultdict(set)
    samples = []
    p = probe()
    for _ in range(desc["n"]):
        txs = wide_ledger(rng, n_sec=rng.randint(4, 40), years=rng.randint(3, 12))
        reqs = [dict(lc.calc_case(txs, record=True), outputs=["plain", "json"])]
        reqs += [dict(lc.calc_case(txs, shuffle=s), outputs=["plain", "json"]) for s in range(1, 9)]
        # the same input again: fresh HashMaps (new RandomState keys) in the same process
        reqs += [dict(lc.calc_case(txs, record=True)) for _r in range(4)]
        obs = p.run(reqs)
        base = obs[0]
        if "ok" not in base:
            cnt["not_accepted"] += 1
            continue
        cnt["inputs"] += 1
        hashes.add(sha(txs)[:16])
        case = {"op": "calc", "txs": txs}
        for o in [base] + obs[9:]:
            for rec in o.get("orders", []):
                key = f"{rec['site']}"
                sets[key].add(tuple(rec["natural"]))
                if len(rec["natural"]) >= 2:
                    cnt[f"drains_{rec['site']}_with_2plus_items"] += 1
        for msg in order_predicates(base["ok"]["report"], base["ok"].get("plain")):
            viols.append({"clause": "not-canonically-ordered", "signature": "not-canonically-ordered:" + order_kind(msg),
                          "detail": msg, "case": case})
        for s, o in enumerate(obs[1:9], start=1):
            cnt["failpoint_permutations"] += 1
            if "ok" not in o:
                viols.append({"clause": "permuted-drain-changes-acceptance", "signature": "permuted-drain-changes-acceptance",
                              "detail": str(o.get("err"))[:200], "case": dict(case, shuffle=s)})
                continue
            if o["ok"]["report"] != base["ok"]["report"] or o["ok"].get("plain") != base["ok"].get("plain") or o["ok"].get("json") != base["ok"].get("json"):
                which = [k for k in ("report", "plain", "json") if o["ok"].get(k) != base["ok"].get(k)]
                msgs = order_predicates(o["ok"]["report"], o["ok"].get("plain"))
                viols.append({"clause": "output-depends-on-hash-order", "signature": "output-depends-on-hash-order",
                              "detail": f"shuffle seed {s}: {which} differ; " + "; ".join(msgs[:2]), "case": dict(case, shuffle=s)})
        for o in obs[9:]:
            if "ok" in o and o["ok"]["report"] != base["ok"]["report"]:
                viols.append({"clause": "repeated-run-differs", "signature": "repeated-run-differs", "detail": "same process, same input",
                              "case": case})
        if len(samples) < 1:
            samples.append({"securities": len({t["ticker"] for t in txs}), "lines": len(txs),
                            "tax_years": [y["period"] for y in base["ok"]["report"]["tax_years"]],
                            "holdings_pre_sort_order_seen": base.get("orders", [{}])[-1].get("natural", [])[:8]})
    for site, orders in sets.items():
        cnt[f"distinct_presort_orders_{site}"] = len(orders)
    return {"evaluations": cnt["inputs"] * 13, "nontrivial_hashes": hashes, "counters": cnt, "violations": cap_viols(viols),
            "samples": samples, "sets": {}}


MASKS = [(re.compile(rb"# Converted: [^\n]*"), b"# Converted: <masked>")]


def mcp_requests(rng, txs):
    """The same handful of tool calls for every server process: reports, an explanation, and the error answers that
    enumerate things (a ticker without disposals in that year lists the tickers that have some)."""
    from ..mcpdrv import call
    text = render_dsl(txs)
    sells = [t for t in txs if t["kind"] == "SELL"]
    s0 = rng.choice(sells)
    from ..util import tax_year_of, d as pdate
    reqs = [call("r1", "calculate_report", {"transactions": text}),
            call("r2", "calculate_report", {"transactions": text, "year": tax_year_of(pdate(s0["date"]))}),
            call("r3", "explain_matching", {"transactions": text, "disposal_date": s0["date"], "ticker": s0["ticker"]}),
            call("r4", "explain_matching", {"transactions": text, "disposal_date": s0["date"], "ticker": "NOSUCH"}),
            call("r5", "parse_transactions", {"transactions": text}),
            call("r6", "convert_to_dsl", {"transactions": text}),
            {"jsonrpc": "2.0", "id": "r7", "method": "tools/list"},
            {"jsonrpc": "2.0", "id": "r8", "method": "resources/list"}]
    never_sold = sorted({t["ticker"] for t in txs} - {t["ticker"] for t in sells})
    if never_sold:
        reqs.append(call("r9", "explain_matching", {"transactions": text, "disposal_date": s0["date"], "ticker": never_sold[0]}))
    return reqs


def exec_procs(kind, files, args, requests, nproc, cnt):
    """Run one command in `nproc` fresh processes (fresh hash seeds each) and compare what they produce.
    Returns (violations-without-case, outs)."""
    from ..clidrv import Sandbox, ALL_YEARS_TOML
    viols = []
    outs = []
    if kind == "mcp":
        from ..mcpdrv import Session, check_history
        for n in range(nproc):
            sess = Session()
            sess.send(requests)
            sess.wait_for([r["id"] for r in requests], 120)
            end = sess.finish()
            hv, _st, resp = check_history(sess, end)
            if hv:
                cnt["mcp_history_problems(routed to C20)"] += len(hv)
            body = []
            for r in requests:
                a_ = dict(resp.get(json.dumps(r["id"]) if False else sess.idkey(r["id"]), {}))
                a_.pop("id", None)
                if isinstance(a_.get("result"), dict) and isinstance(a_["result"].get("tools"), list):
                    # the order in which tools/list enumerates tools is rmcp's, not an output of a cgt-tool command
                    a_["result"]["tools"] = sorted(a_["result"]["tools"], key=lambda t: t.get("name", ""))
                body.append(json.dumps(a_, sort_keys=True))
            outs.append((0, body))
        per_req = list(zip(*[o[1] for o in outs]))
        for r, answers in zip(requests, per_req):
            if len(set(answers)) > 1:
                name = r.get("params", {}).get("name", r.get("method"))
                viols.append({"clause": "output-differs-between-processes", "signature": "output-differs-between-processes:mcp:" + str(name),
                              "detail": f"{len(set(answers))} distinct answers to request {r['id']} ({name}) from {nproc} fresh servers: "
                                        + " | ".join(sorted(set(x[:150] for x in answers))[:3])})
        return viols, outs
    with Sandbox(ALL_YEARS_TOML) as sb:
        for name, text in files.items():
            sb.write(name, text)
        day0 = dt.date.today()
        for n in range(nproc):
            if kind == "pdf":
                r = sb.run(["report", "in.cgt", "--format", "pdf", "--output", f"o{n}.pdf"])
                try:
                    with open(f"{sb.cwd}/o{n}.pdf", "rb") as f:
                        data = f.read()
                except OSError:
                    data = b""
                outs.append((r["exit"], data))
            else:
                r = sb.run(args)
                data = r["stdout"]
                for rx, rep in MASKS:
                    data = rx.sub(rep, data)
                outs.append((r["exit"], data, r["stderr"]))
        if kind == "pdf" and dt.date.today() != day0:
            cnt["pdf_runs_across_midnight(skipped)"] += 1
            return [], None
        if kind in ("plain", "json", "convert") and outs and outs[0][0] == 0:
            # the same command writing to --output: onto a fresh path and onto a path that already holds a longer file
            sb.write("stale.out", b"x" * (len(outs[0][1]) + 4096))
            ra = sb.run(args + ["--output", "fresh.out"])
            rb = sb.run(args + ["--output", "stale.out"])
            try:
                fa = open(f"{sb.cwd}/fresh.out", "rb").read()
                fb = open(f"{sb.cwd}/stale.out", "rb").read()
            except OSError:
                fa, fb = b"", b"?"
            for rx, rep in MASKS:
                fa, fb = rx.sub(rep, fa), rx.sub(rep, fb)
            cnt["output_file_pairs"] += 1
            if ra["exit"] == 0 and rb["exit"] == 0 and fa != fb:
                viols.append({"clause": "output-file-depends-on-what-was-there", "signature": "output-file-depends-on-previous-content:" + kind,
                              "detail": f"`--output` onto a fresh path wrote {len(fa)} bytes, onto an existing longer file {len(fb)} bytes"})
    distinct = {hashlib.sha256(repr(o[:2]).encode()).hexdigest() for o in outs}
    distinct_err = {hashlib.sha256(repr(o[2]).encode()).hexdigest() for o in outs if len(o) > 2}
    if len(distinct) > 1:
        viols.append({"clause": "output-differs-between-processes", "signature": "output-differs-between-processes:" + kind,
                      "detail": f"{len(distinct)} distinct outputs over {nproc} runs of `{' '.join(args or ['report --format pdf'])}`"})
    elif len(distinct_err) > 1:
        # warnings and messages on stderr are output too
        viols.append({"clause": "output-differs-between-processes", "signature": "output-differs-between-processes:" + kind + ":stderr",
                      "detail": f"{len(distinct_err)} distinct stderr texts over {nproc} runs of `{' '.join(args or [])}`"})
    elif outs[0][0] != 0:
        cnt["inputs_rejected_" + kind] += 1
    else:
        if kind == "json":
            j = json.loads(outs[0][1])
            ys = [y["period"] for y in j["tax_years"]]
            if ys != sorted(ys):
                viols.append({"clause": "not-canonically-ordered", "signature": "not-canonically-ordered:tax years", "detail": str(ys)})
            for y in j["tax_years"]:
                keys = [(d["date"], d["ticker"]) for d in y["disposals"]]
                if keys != sorted(keys):
                    viols.append({"clause": "not-canonically-ordered", "signature": "not-canonically-ordered:disposals", "detail": str(keys[:6])})
            hs = [h["ticker"] for h in j["holdings"]]
            if hs != sorted(hs):
                viols.append({"clause": "not-canonically-ordered", "signature": "not-canonically-ordered:holdings", "detail": str(hs[:8])})
        if kind == "plain":
            for msg in order_predicates({"tax_years": [], "holdings": []}, outs[0][1].decode("utf-8", "replace")):
                viols.append({"clause": "not-canonically-ordered", "signature": "not-canonically-ordered:" + order_kind(msg), "detail": msg})
        if kind == "convert":
            ds = re.findall(rb"^(\d{4}-\d\d-\d\d) ", outs[0][1], flags=re.M)
            if ds != sorted(ds):
                viols.append({"clause": "not-canonically-ordered", "signature": "not-canonically-ordered:converter output", "detail": "dates decrease"})
    return viols, outs


def run_procs(desc):
    """One input, 16 fresh processes per command: byte-identical output (each process has fresh hash seeds)."""
    rng = rng_for(PROP, desc["seed"], "procs", desc["shard"])
    cnt = Counter()
    viols = []
    hashes = set()
    samples = []
    i = desc["shard"]
    kind = ["plain", "json", "parse", "convert", "plain", "json", "pdf", "mcp"][i % 8]
    nproc = 16 if kind != "mcp" else 6
    files, args, requests = {}, None, None
    if kind == "convert":
        rows, awards = sm.gen_export(rng, n=(20, 60))
        # many same-date rows
        rows = rows + [dict(r) for r in rows[:5]]
        files["t.json"] = sm.export_json(rows)
        args = ["convert", "schwab", "t.json"]
        if awards:
            files["a.json"] = json.dumps(awards)
            args += ["--awards", "a.json"]
        inp = rows
    else:
        txs = wide_ledger(rng, n_sec=rng.randint(10, 50) if kind not in ("pdf", "mcp") else rng.randint(5, 15),
                          years=rng.randint(5, 15) if kind not in ("pdf", "mcp") else 4)
        files["in.cgt"] = render_dsl(txs)
        inp = txs
        names = ["in.cgt"]
        if kind in ("parse", "plain", "json") and rng.random() < 0.5:
            # the same ledger as three input files (the order of the files on the command line is part of the input)
            lines = files.pop("in.cgt").splitlines()
            c1, c2 = sorted(rng.sample(range(1, len(lines)), 2)) if len(lines) > 3 else (1, 2)
            files = {"a.cgt": "\n".join(lines[:c1]) + "\n", "b.cgt": "\n".join(lines[c1:c2]) + "\n", "c.cgt": "\n".join(lines[c2:]) + "\n"}
            names = ["a.cgt", "b.cgt", "c.cgt"]
            cnt["inputs_given_as_three_files"] += 1
        if kind == "parse":
            args = ["parse"] + names
        elif kind == "mcp":
            requests = mcp_requests(rng, txs)
        elif kind != "pdf":
            args = ["report"] + names + ["--format", kind]
    vs, outs = exec_procs(kind, files, args, requests, nproc, cnt)
    if outs is None:
        return {"evaluations": nproc, "nontrivial_hashes": hashes, "counters": cnt, "violations": [], "samples": []}
    cnt[f"process_runs_{kind}"] += nproc
    cnt["inputs_" + kind] += 1
    hashes.add(sha(inp)[:16])
    case = {"op": "procs", "kind": kind, "files": files, "args": args, "requests": requests, "nproc": nproc}
    for x in vs:
        x["case"] = case
    viols += vs
    if not vs and len(samples) < 1 and kind != "mcp":
        samples.append({"command": " ".join(args or ["report", "in.cgt", "--format", "pdf"]), "processes": nproc,
                        "distinct_outputs": 1, "bytes": len(outs[0][1])})
    if not vs and len(samples) < 1 and kind == "mcp":
        samples.append({"mcp_requests": [r.get("params", {}).get("name", r.get("method")) for r in requests], "server_processes": nproc,
                        "distinct_answers_per_request": 1})
    return {"evaluations": nproc, "nontrivial_hashes": hashes, "counters": cnt, "violations": viols, "samples": samples}


def run_shard(desc):
    return run_hooked(desc) if desc["kind"] == "hooked" else run_procs(desc)


def replay(case):
    if case.get("op") == "calc":
        o = probe().one(dict(lc.calc_case(case["txs"], shuffle=case.get("shuffle")), outputs=["plain"]))
        vs = []
        if "ok" in o:
            vs = [{"clause": "not-canonically-ordered", "signature": "not-canonically-ordered", "detail": m}
                  for m in order_predicates(o["ok"]["report"], o["ok"].get("plain"))]
        return vs, o
    if case.get("op") == "procs" and "files" in case:
        vs, outs = exec_procs(case["kind"], case["files"], case.get("args"), case.get("requests"), int(case.get("nproc", 8)), Counter())
        return vs, {"processes": case.get("nproc"), "kind": case["kind"]}
    return [], {"note": "process-repetition cases recorded before inputs were kept: re-run the shard"}


def finalize(total, tier, seed):
    cnt = total["counters"]
    # distinct orders are counted per shard and summed; a site that never showed >= 2 distinct orders is inconclusive
    for site in ("holdings", "tax_years", "disposals"):
        if cnt.get(f"distinct_presort_orders_{site}", 0) < 2:
            total.setdefault("inconclusive", []).append(f"H3 site {site} never showed two distinct pre-sort orders")


THRESHOLDS = {"inputs": 100, "failpoint_permutations": 800, "drains_holdings_with_2plus_items": 100,
              "drains_tax_years_with_2plus_items": 100, "drains_disposals_with_2plus_items": 500,
              "process_runs_plain": 90, "process_runs_json": 90, "process_runs_parse": 40, "process_runs_convert": 40,
              "process_runs_pdf": 40, "process_runs_mcp": 12, "inputs_given_as_three_files": 3, "output_file_pairs": 10}
RULE = ("ledgers with 4-50 securities, many disposals on one date and 3-15 tax years: (a) hooked library runs "
        "recording the pre-sort order of each HashMap drain and re-run under 8 seeded permutations of every drain (H3 "
        "failpoint) - reports, text and JSON must be identical and canonically ordered; (b) 16 fresh processes per "
        "input and command (report plain/json/pdf, parse, convert schwab) compared byte for byte after masking the "
        "converter timestamp, plus 6 fresh `cgt-tool mcp` servers given the same tool calls (reports, explanations and the "
        "error answers that enumerate tickers); input lines arrive shuffled, chronological with arbitrary order inside a "
        "date, reverse-chronological or grouped by security; distinct by input hash")
