"""C15 - every input yields a complete result or a clean error, never a crash; failing CLI runs write nothing;
the validator reports an error exactly when a quantity is <= 0, a price/fee/total is < 0 or a ratio is <= 0."""
from __future__ import annotations

import datetime as dt
import base64
import json
import os
import random
import re
from collections import Counter
from fractions import Fraction

from ..gen.ledger import Opts, gen_ledger, render_dsl
from ..model import schwab as sm
from ..probe import probe
from ..util import cap_viols, rng_for, sha, fr, iso, dstr
from . import ledger_core as lc

PROP = "C15"


def plan(tier, seed):
    k = 24 if tier == "quick" else 400
    shards = []
    for kind in ("soup", "hostile_moderate", "hostile_extreme", "validator", "convert_soup"):
        shards += [{"kind": kind, "seed": seed, "shard": i, "n": 300} for i in range(k)]
    shards += [{"kind": "faults", "seed": seed, "shard": i, "n": 25} for i in range(32 if tier == "quick" else 400)]
    shards += [{"kind": "mcp_soup", "seed": seed, "shard": i, "n": 120} for i in range(4 if tier == "quick" else 60)]
    return shards


TOKENS = ["BUY", "SELL", "DIVIDEND", "ACCUMULATION", "CAPRETURN", "SPLIT", "UNSPLIT", "TOTAL", "FEES", "TAX", "RATIO", "@",
          "GBP", "USD", "EUR", "XXX", "2024-01-15", "2024-02-30", "0000-00-00", "9999-12-31", "0001-01-01", "100", "0", "0.0",
          "1.5", "99999999999999999999999999999", "0.0000000000000000000000000001", "79228162514264337593543950335",
          "79228162514264337593543950336", "-1", "1e5", "#", "# c", "\n", "\r\n", "\r", "\t", " ", "AAPL", "X", "é", "\x00", "%%",
          "1.2.3", "..", "@@", "FEES FEES"]


def soup(rng):
    k = rng.random()
    if k < 0.3:
        return "".join(chr(rng.choice([rng.randint(0, 127), rng.randint(0, 0x2FF), rng.randint(32, 126)])) for _ in range(rng.randint(0, 200)))
    if k < 0.85:
        return " ".join(rng.choice(TOKENS) for _ in range(rng.randint(1, 40)))
    # a valid file with one random byte-level mutation
    txs, _ = gen_ledger(rng, Opts(capital=True, splits=True, n_sec=(1, 2), steps=(2, 6)))
    s = list(render_dsl(txs))
    for _ in range(rng.randint(1, 3)):
        i = rng.randrange(len(s))
        op = rng.random()
        if op < 0.4:
            s[i] = chr(rng.randint(0, 255))
        elif op < 0.7:
            del s[i]
        else:
            s.insert(i, rng.choice(TOKENS))
    return "".join(s)


MODERATE = ["0", "0.00000001", "0.000001", "0.01", "1", "3", "7", "100", "12345.678901", "999999999", "1000000000", "0.5", "2.5"]
EXTREME = ["79228162514264337593543950335", "7922816251426433759354395033.5", "0.0000000000000000000000000001",
           "10000000000000000000000000000", "70000000000000000000000000000", "0.0000000000000000000000000079",
           "99999999999999", "0.00000000000001", "1", "0"]
RATIOS_MOD = ["0.001", "0.5", "1", "2", "3", "7", "1000", "1.5", "0.3"]


def hostile_ledger(rng, extreme):
    """Structurally valid, semantically hostile: zero quantities/prices, sells first, calendar ends, unknown-to-the-
    table currencies, huge/tiny magnitudes (extreme regime only)."""
    vals = EXTREME if extreme else MODERATE
    tickers = rng.sample(["A", "B", "ZED", "Q9"], rng.randint(1, 3))
    n = rng.randint(1, 12)
    txs = []
    if rng.random() < 0.08:
        # a sale, then inside its 30-day window a SPLIT/UNSPLIT with a zero (or negative) ratio, then a repurchase still
        # inside the window: the look-ahead meets the ratio before the day loop does
        tk = rng.choice(tickers)
        D0 = dt.date(2024, rng.randint(1, 10), rng.randint(1, 20))
        bad = rng.choice(["0", "0", "0.0", "-1", "-0.5"])
        return [{"date": iso(D0), "ticker": tk, "kind": "BUY", "amount": "100", "price": ["10", "GBP"], "fees": ["0", "GBP"]},
                {"date": iso(D0 + dt.timedelta(days=rng.randint(1, 20))), "ticker": tk, "kind": "SELL", "amount": rng.choice(["40", "100"]),
                 "price": ["12", "GBP"], "fees": ["0", "GBP"]},
                {"date": iso(D0 + dt.timedelta(days=rng.randint(21, 30))), "ticker": tk, "kind": rng.choice(["SPLIT", "UNSPLIT"]), "ratio": bad},
                {"date": iso(D0 + dt.timedelta(days=rng.randint(31, 45))), "ticker": tk, "kind": "BUY", "amount": "30",
                 "price": ["11", "GBP"], "fees": ["0", "GBP"]}]
    if rng.random() < 0.25:
        # degenerate days: several lines of one security on one or two dates with zero / tiny quantities and prices, so
        # that same-day merging, averaging and apportioning see zero totals
        tk = rng.choice(tickers)
        D0 = rng.choice([dt.date(2020, 2, 28), dt.date(2024, 3, 30), dt.date(2015, 11, 20)])
        small = ["0", "0", "0", "0.00000001", "1", "3"] if not extreme else ["0", "0", "0.0000000000000000000000000001", "1"]
        for _ in range(rng.randint(2, 7)):
            k = rng.choice(["BUY", "BUY", "BUY", "SELL", "SELL", "DIVIDEND", "ACCUMULATION", "CAPRETURN", "SPLIT"])
            d_ = D0 + dt.timedelta(days=rng.choice([0, 0, 0, 1]))
            t = {"date": iso(d_), "ticker": tk, "kind": k}
            if k in ("BUY", "SELL"):
                t.update(amount=rng.choice(small), price=[rng.choice(small + ["100"]), "GBP"], fees=[rng.choice(["0", "0", "1"]), "GBP"])
            elif k == "DIVIDEND":
                t.update(total=[rng.choice(small), "GBP"], tax=["0", "GBP"])
            elif k == "ACCUMULATION":
                t.update(amount=rng.choice(small), total=[rng.choice(small), "GBP"], tax=["0", "GBP"])
            elif k == "CAPRETURN":
                t.update(amount=rng.choice(small), total=[rng.choice(small), "GBP"], fees=["0", "GBP"])
            else:
                t.update(ratio=rng.choice(["2", "1", "0.5"]))
            txs.append(t)
        return txs
    D = rng.choice([dt.date(1, 1, 1), dt.date(1899, 12, 25), dt.date(1900, 4, 5), dt.date(2020, 2, 28), dt.date(2100, 4, 1), dt.date(9999, 11, 1),
                    dt.date(2024, 3, 30), dt.date(2015, 11, 20)])
    for _ in range(n):
        try:
            D = D + dt.timedelta(days=rng.choice([0, 0, 1, 29, 30, 31, 400]))
        except OverflowError:
            D = dt.date(9999, 12, 31)
        tk = rng.choice(tickers)
        k = rng.choice(["BUY", "BUY", "SELL", "SELL", "DIVIDEND", "ACCUMULATION", "CAPRETURN", "SPLIT", "UNSPLIT"])
        cur = rng.choice(["GBP", "GBP", "GBP", "USD", "EUR", "XAU", "BTN"]) if rng.random() < 0.3 else "GBP"
        t = {"date": iso(D), "ticker": tk, "kind": k}
        if k in ("BUY", "SELL"):
            t.update(amount=rng.choice(vals), price=[rng.choice(vals), cur], fees=[rng.choice(vals + ["0", "0"]), cur])
        elif k == "DIVIDEND":
            t.update(total=[rng.choice(vals), cur], tax=[rng.choice(vals + ["0"]), cur])
        elif k == "ACCUMULATION":
            t.update(amount=rng.choice(vals), total=[rng.choice(vals), cur], tax=["0", "GBP"])
        elif k == "CAPRETURN":
            t.update(amount=rng.choice(vals), total=[rng.choice(vals), cur], fees=[rng.choice(vals + ["0"]), cur])
        else:
            t.update(ratio=rng.choice(vals if extreme else RATIOS_MOD + ["0"]))
        txs.append(t)
    return txs


def big_echo_ledger(rng):
    """Extreme amounts that the calculation itself survives (so the formatters get to print them): a small GBP holding
    plus DIVIDEND / ACCUMULATION / CAPRETURN lines whose totals are 28-29 digit figures in currencies with 0, 2, 3 and 4
    minor units and an HMRC rate above 1 (the division cannot overflow). Found by hand after a sub-agent's remark: the
    text report padded such a figure to three decimals in a 32-byte buffer (F21)."""
    D = dt.date(rng.choice([2019, 2020, 2022]), rng.randint(1, 12), rng.randint(1, 28))
    txs = [{"date": iso(D), "ticker": "A", "kind": "BUY", "amount": "10", "price": ["1", "GBP"], "fees": ["0", "GBP"]}]
    for _ in range(rng.randint(1, 3)):
        D += dt.timedelta(days=rng.randint(1, 40))
        cur = rng.choice(["TND", "LYD", "IQD", "JPY", "USD", "INR", "BHD", "KWD", "CLF", "GBP"])
        big = rng.choice(["79228162514264337593543950335", "7922816251426433759354395033.5", "10000000000000000000000000000",
                          "9999999999999999999999999999", "999999999999999999999999999.99", "1000000000000000000000000"])
        k = rng.choice(["DIVIDEND", "ACCUMULATION", "CAPRETURN"])
        t = {"date": iso(D), "ticker": "A", "kind": k}
        if k == "DIVIDEND":
            t.update(total=[big, cur], tax=[rng.choice(["0", big]), cur])
        elif k == "ACCUMULATION":
            t.update(amount="10", total=[big, cur], tax=["0", "GBP"])
        else:
            t.update(amount="10", total=["1", "GBP"], fees=["0", "GBP"])
            txs.append({"date": iso(D), "ticker": "A", "kind": "DIVIDEND", "total": [big, cur], "tax": ["0", cur]})
        txs.append(t)
    if rng.random() < 0.5:
        txs.append({"date": iso(D + dt.timedelta(days=50)), "ticker": "A", "kind": "SELL", "amount": "5", "price": ["1", "GBP"], "fees": ["0", "GBP"]})
    return txs


def panic_signature(p, regime):
    msg = p.get("message", "")
    loc = p.get("location", "")
    lib = "rust_decimal" if "rust_decimal" in loc else ("repo:" + loc.split("/crates/")[-1] if "/crates/" in loc else loc.split("/")[-3] if "/" in loc else loc)
    kind = "overflow" if "overflow" in msg.lower() else ("division-by-zero" if "zero" in msg.lower() else re.sub(r"[0-9]+", "N", msg)[:40])
    return f"panic:{regime}:{lib}:{kind}"


def run_lib_cases(cases, regime, cnt, viols, hashes, samples, fx="bundled"):
    """cases: list of dicts (probe requests). Any panic is a violation."""
    obs = probe().run(cases)
    for c, o in zip(cases, obs):
        cnt["library_calls"] += 1
        if "hang" in o:
            # bounded progress: no answer within the watchdog. A loaded machine can be slow, so the call is repeated
            # twice on a fresh harness process; only three silences in a row count (otherwise inconclusive)
            again = [probe().run([c])[0] for _ in range(2)]
            if all("hang" in a for a in again):
                viols.append({"clause": "does-not-terminate", "signature": f"library-call-does-not-terminate:{regime}",
                              "detail": f"no result or error within {o['hang']['seconds']} s, three times", "case": c})
            else:
                cnt["slow_calls(inconclusive)"] += 1
            continue
        if "panic" in o:
            reg = regime
            if regime in ("soup", "convert"):
                # token soup draws from a vocabulary that includes the largest representable numbers; a soup text that
                # carries a number of 20+ digits is in the extreme regime (where F8 is the known overflow), others are not
                text = " ".join(str(c.get(k_, "")) for k_ in ("dsl", "text", "json", "transactions_json", "awards_json"))
                if re.search(r"\d{20,}", text.replace(",", "")):
                    reg = regime + "-with-a-20-digit-number"
            viols.append({"clause": "panic", "signature": panic_signature(o["panic"], reg),
                          "detail": f"{o['panic'].get('message')} at {o['panic'].get('location', '')[-70:]}", "case": c})
        elif "err" in o:
            cnt["error_kind_" + o["err"].get("kind", "?")] += 1
            if not o["err"].get("message"):
                viols.append({"clause": "empty-error-message", "signature": "empty-error-message", "detail": str(o["err"]), "case": c})
        else:
            cnt["complete_results"] += 1
            # a complete result: report must be structurally whole
            if c["op"] == "calc" and not all(k in o["ok"]["report"] for k in ("tax_years", "holdings", "transactions")):
                viols.append({"clause": "partial-report", "signature": "partial-report", "detail": str(list(o["ok"]["report"])), "case": c})
        hashes.add(sha(c)[:16])
    return obs


def run_soup(desc):
    rng = rng_for(PROP, desc["seed"], "soup", desc["shard"])
    cnt, viols, hashes, samples = Counter(), [], set(), []
    cases = []
    for _ in range(desc["n"]):
        text = soup(rng)
        op = rng.choice(["parse", "calc", "calc_plain"])
        if op == "parse":
            cases.append({"op": "parse", "text": text})
        else:
            c = lc.calc_case(dsl=text, fx="bundled", exemptions="embedded")
            if op == "calc_plain":
                c["outputs"] = ["plain", "json"]
            cases.append(c)
    run_lib_cases(cases, "soup", cnt, viols, hashes, samples)
    samples.append({"soup_example": cases[0].get("text", cases[0].get("dsl", ""))[:120]})
    return {"evaluations": len(cases), "nontrivial_hashes": hashes, "counters": cnt, "violations": cap_viols(viols), "samples": samples[:1]}


def run_hostile(desc, extreme):
    rng = rng_for(PROP, desc["seed"], "hostile", extreme, desc["shard"])
    cnt, viols, hashes, samples = Counter(), [], set(), []
    cases = []
    for _ in range(desc["n"]):
        txs = hostile_ledger(rng, extreme)
        c = lc.calc_case(txs, fx=rng.choice(["bundled", None]), exemptions=rng.choice(["embedded", lc.ALL_YEARS]),
                         year=rng.choice([None, None, 2020, 1900, 2100, 0, 99999, -5]))
        c["outputs"] = rng.choice([[], ["plain"], ["plain", "json"], ["pdf_runs"] if rng.random() < 0.2 else []])
        if extreme and rng.random() < 0.1:
            txs = big_echo_ledger(rng)
            c = lc.calc_case(txs, fx="bundled", exemptions=lc.ALL_YEARS)
            c["outputs"] = rng.choice([["plain", "json"], ["plain"], ["pdf_runs"]])
            cnt["big_echo_ledgers(extreme totals the calculation survives)"] += 1
        cases.append(c)
        if rng.random() < 0.3:
            cases.append({"op": "validate", "txs": txs})
            cases.append({"op": "to_dsl", "txs": txs})
    regime = "extreme" if extreme else "moderate"
    obs = run_lib_cases(cases, regime, cnt, viols, hashes, samples)
    cnt[f"hostile_{regime}_ledgers"] += desc["n"]
    for c, o in zip(cases, obs):
        if "ok" in o and isinstance(o["ok"], dict) and "pdf_err" in o["ok"]:
            cnt["pdf_errors(clean)"] += 1
    return {"evaluations": len(cases), "nontrivial_hashes": hashes, "counters": cnt, "violations": cap_viols(viols), "samples": samples[:1]}


def run_validator(desc):
    """validate().is_valid() == not(some quantity <= 0 or some price/fee/total < 0 or some ratio <= 0).
    Structs are built directly in the harness, so negative and zero fields are reachable."""
    rng = rng_for(PROP, desc["seed"], "validator", desc["shard"])
    cnt, viols, hashes = Counter(), [], set()
    vals = ["-1", "-0.000001", "0", "0.00", "0.000001", "1", "100", "-100"]
    cases = []
    for _ in range(desc["n"]):
        n = rng.randint(1, 6)
        txs = []
        for _i in range(n):
            k = rng.choice(["BUY", "SELL", "DIVIDEND", "ACCUMULATION", "CAPRETURN", "SPLIT", "UNSPLIT"])
            good = rng.random() < 0.6

            def pick(pos_required):
                if good:
                    return rng.choice(["1", "100", "0.000001"] if pos_required else ["0", "1", "100", "0.00"])
                return rng.choice(vals)
            t = {"date": "2024-01-15", "ticker": rng.choice(["A", "B"]), "kind": k}
            if k in ("BUY", "SELL"):
                t.update(amount=pick(True), price=[pick(False), "GBP"], fees=[pick(False), "GBP"])
            elif k == "DIVIDEND":
                t.update(total=[pick(False), "GBP"], tax=[pick(False), "GBP"])
            elif k == "ACCUMULATION":
                t.update(amount=pick(True), total=[pick(False), "GBP"], tax=[pick(False), "GBP"])
            elif k == "CAPRETURN":
                t.update(amount=pick(True), total=[pick(False), "GBP"], fees=[pick(False), "GBP"])
            else:
                t.update(ratio=pick(True))
            txs.append(t)
        cases.append(txs)
    obs = probe().run([{"op": "validate", "txs": t} for t in cases])
    for txs, o in zip(cases, obs):
        cnt["validator_cases"] += 1
        hashes.add(sha(txs)[:16])
        if "panic" in o:
            viols.append({"clause": "panic", "signature": panic_signature(o["panic"], "validator"), "detail": str(o["panic"])[:200],
                          "case": {"op": "validate", "txs": txs}})
            continue
        bad_lines = set()
        reasons = Counter()
        for i, t in enumerate(txs):
            k = t["kind"]
            if k in ("BUY", "SELL", "ACCUMULATION", "CAPRETURN") and fr(t["amount"]) <= 0:
                bad_lines.add(i + 1)
                reasons["quantity<=0"] += 1
            if k in ("SPLIT", "UNSPLIT") and fr(t["ratio"]) <= 0:
                bad_lines.add(i + 1)
                reasons["ratio<=0"] += 1
            for f in ("price", "total"):
                if f in t and fr(t[f][0]) < 0:
                    bad_lines.add(i + 1)
                    reasons["price/total<0"] += 1
            if "fees" in t and fr(t["fees"][0]) < 0:
                bad_lines.add(i + 1)
                reasons["fee<0"] += 1
        want_valid = not bad_lines
        got_valid = o["ok"]["is_valid"]
        for r_ in reasons:
            cnt["validator_reason_" + r_] += 1
        if want_valid:
            cnt["validator_valid_inputs"] += 1
        if got_valid != want_valid:
            got_lines = {e["line"] for e in o["ok"]["errors"]}
            only = "+".join(sorted(reasons)) if reasons else "none"
            viols.append({"clause": "validator-verdict", "signature": f"validator-verdict:expected-{'valid' if want_valid else 'invalid'}:{only}",
                          "detail": f"is_valid={got_valid}, expected {want_valid} (offending lines {sorted(bad_lines)}; reported {sorted(got_lines)}; {dict(reasons)})",
                          "case": {"op": "validate", "txs": txs}})
        elif not want_valid:
            got_lines = {e["line"] for e in o["ok"]["errors"]}
            if not bad_lines <= got_lines and got_lines <= bad_lines and False:
                pass
    return {"evaluations": len(cases), "nontrivial_hashes": hashes, "counters": cnt, "violations": cap_viols(viols),
            "samples": [{"validated": cases[0], "verdict": obs[0].get("ok")}]}


def run_convert_soup(desc):
    rng = rng_for(PROP, desc["seed"], "convert_soup", desc["shard"])
    cnt, viols, hashes, samples = Counter(), [], set(), []
    cases = []
    junk = ["", "--", "$", "$-", "1,,2", "abc", "1e9", "-$5", "$1,234.56", "99999999999999999999999999999999", "0.0000000000000000000000000000001",
            None, 5, True, [], {}]
    dates = ["01/15/2024", "13/45/2024", "02/30/2023", "1/1/1", "", "as of", "01/15/2024 as of", "as of 01/15/2024", "01/15/2024 as of 02/30/2024",
             "12/31/9999", "01/01/0001", "01/03/-262143", "12/30/262142", "01/01/-1", "01/05/0000", None, 7]
    for _ in range(desc["n"]):
        k = rng.random()
        if k < 0.2:
            tj = soup(rng)
        else:
            rows, awards = sm.gen_export(rng, n=(1, 8))
            for r in rows:
                if rng.random() < 0.5:
                    f = rng.choice(["Quantity", "Price", "Fees & Comm", "Amount", "Date", "Symbol", "Action", "Description"])
                    r[f] = rng.choice(dates if f == "Date" else junk)
                if rng.random() < 0.1:
                    r.pop(rng.choice(list(r)), None)
            tj = json.dumps({"BrokerageTransactions": rows} if rng.random() < 0.9 else rows)
        if rng.random() < 0.12:
            # several sells of one symbol on one date and Cancel Sell rows for some of them, in every relative order
            # (newest-first exports list the correction of the older sale later)
            sells = [{"Date": "05/10/2023", "Action": "Sell", "Symbol": "XYZZ", "Description": "d", "Quantity": str(10 + i),
                      "Price": "$%d.00" % (50 + i), "Fees & Comm": "$0.10", "Amount": "$1.00"} for i in range(rng.randint(2, 5))]
            cancels = [dict(r, Action="Cancel Sell") for r in rng.sample(sells, rng.randint(1, len(sells)))]
            order = rng.choice(["sells_then_cancels_reversed", "shuffled", "cancels_first"])
            if order == "sells_then_cancels_reversed":
                rows_ = sells + list(reversed(cancels))
            elif order == "cancels_first":
                rows_ = cancels + sells
            else:
                rows_ = sells + cancels
                rng.shuffle(rows_)
            if rng.random() < 0.5:
                rows_.insert(0, {"Date": "04/25/2023", "Action": "Buy", "Symbol": "XYZZ", "Description": "d", "Quantity": "100",
                                 "Price": "$40.00", "Fees & Comm": "", "Amount": "-$4,000.00"})
            cases.append({"op": "convert", "transactions_json": json.dumps({"BrokerageTransactions": rows_}), "awards_json": None, "reparse": False})
            cnt["convert_cancellation_storms"] += 1
            continue
        if rng.random() < 0.15:
            # an RSU deposit row at a calendar extreme with a well-formed awards file: the 7-day look-back has to do
            # date arithmetic at the edge of what the date type can represent
            d_ext = rng.choice(["01/03/-262143", "01/01/-262143", "12/30/262142", "01/05/0000", "01/02/0001", "12/31/9999", "01/01/-1"])
            tj = json.dumps({"BrokerageTransactions": [{"Date": d_ext, "Action": "Stock Plan Activity", "Symbol": "XYZZ", "Description": "RSU",
                                                        "Quantity": "5", "Price": "", "Fees & Comm": "", "Amount": ""}]})
            aj_ = json.dumps({"Transactions": [{"Date": "01/15/2024", "Action": "Deposit", "Symbol": "XYZZ",
                                                "TransactionDetails": [{"Details": {"FairMarketValuePrice": "$10.00"}}]}]})
            cases.append({"op": "convert", "transactions_json": tj, "awards_json": aj_, "reparse": False})
            cnt["convert_rsu_rows_at_calendar_extremes"] += 1
            continue
        aj = None
        if rng.random() < 0.5:
            aj = rng.choice([soup(rng), "{}", '{"Transactions": []}', '{"Transactions": [{"Date": "x", "Symbol": "A"}]}',
                             '{"Transactions": [{"Date": "01/15/2024", "Symbol": "A", "Action": "Deposit", "TransactionDetails": []}]}',
                             '{"Transactions": [{"Date": "01/15/2024", "Symbol": "XYZZ", "TransactionDetails": [{"Details": {"VestDate": "99/99/9999", "VestFairMarketValue": "$1"}}]}]}'])
        cases.append({"op": "convert", "transactions_json": tj, "awards_json": aj, "reparse": False})
    run_lib_cases(cases, "convert", cnt, viols, hashes, samples)
    return {"evaluations": len(cases), "nontrivial_hashes": hashes, "counters": cnt, "violations": cap_viols(viols), "samples": []}


def judge_fault(fault, args, r, before, after, expect_fail, stdout_path, cnt, case):
    """Oracle for one process run of the fault workload. Returns (violations, failed)."""
    viols = []
    if r["timeout"]:
        if r.get("timeout_confirmed"):
            viols.append({"clause": "does-not-terminate", "signature": f"cli-does-not-terminate:{fault}",
                          "detail": f"`{' '.join(args)}` produced neither a result nor an error within the watchdog, three times",
                          "case": case})
        else:
            cnt["timeouts(inconclusive)"] += 1
        return viols, None
    crashed = r["exit"] is None or r["exit"] < 0 or r["exit"] == 101 or r["exit"] == 134 or "panicked at" in r["stderr"]
    if crashed:
        sig = f"cli-crash:{fault}" if fault in ("overflow_ledger", "stdout_dev_full") else f"cli-crash:{fault}"
        viols.append({"clause": "cli-crash", "signature": sig,
                      "detail": f"`{' '.join(args)}` exit {r['exit']}: {r['stderr'].strip().splitlines()[-1][:200] if r['stderr'].strip() else ''}",
                      "case": case})
        return viols, None
    failed = r["exit"] != 0
    if expect_fail is True and not failed:
        viols.append({"clause": "fault-not-reported", "signature": "fault-not-reported:" + fault,
                      "detail": f"`{' '.join(args)}` exit 0", "case": case})
    if expect_fail is False:
        # a generated ledger the tool refuses with a clean error is an outcome C15 allows (whether the refusal is
        # right is C05's business); it only has to satisfy the failure clauses below
        cnt["ok_runs_refused_with_a_clean_error" if failed else "ok_runs_succeeded"] += 1
    if failed:
        cnt["failing_runs_observed"] += 1
        if not r["stderr"].strip():
            viols.append({"clause": "failure-without-message", "signature": "failure-without-message", "detail": str(args), "case": case})
        if r["stdout"] and stdout_path is None:
            viols.append({"clause": "stdout-on-failure", "signature": "stdout-on-failure:" + fault,
                          "detail": f"{len(r['stdout'])} bytes: {r['stdout'][:80]!r}", "case": case})
        changed = [k for k in after if k not in before or after[k] != before[k]]
        if changed:
            viols.append({"clause": "files-touched-on-failure", "signature": "files-touched-on-failure:" + fault,
                          "detail": f"{changed}", "case": case})
    if fault == "preexisting_default_pdf_multi":
        if after.get("report.pdf") != before.get("report.pdf"):
            viols.append({"clause": "default-pdf-path-replaced-existing-file", "signature": "default-pdf-path-replaced-existing-file:multi-input",
                          "detail": f"report.pdf changed (exit {r['exit']})", "case": case})
        elif failed:
            cnt["default_pdf_overwrite_refused"] += 1
    if fault == "preexisting_default_pdf":
        if after.get("good.pdf") != before.get("good.pdf"):
            viols.append({"clause": "default-pdf-path-replaced-existing-file", "signature": "default-pdf-path-replaced-existing-file",
                          "detail": "good.pdf changed", "case": case})
        elif failed:
            cnt["default_pdf_overwrite_refused"] += 1

    return viols, failed


def run_faults(desc):
    """Process boundary: fault sequences. On failure: exit non-zero (not 101, not a signal), nothing on stdout,
    --output untouched; the default PDF path never replaces an existing file."""
    from ..clidrv import Sandbox, ALL_YEARS_TOML
    rng = rng_for(PROP, desc["seed"], "faults", desc["shard"])
    cnt, viols, hashes, samples = Counter(), [], set(), []
    for _ in range(desc["n"]):
        fault = rng.choice(["missing_input", "directory_input", "non_utf8_input", "unwritable_output", "preexisting_output_on_failure",
                            "preexisting_default_pdf", "preexisting_default_pdf_multi", "bad_ledger", "soup_file", "ok_run", "overflow_ledger", "stdout_dev_full",
                            "convert_bad_json", "convert_missing_awards", "bad_fx_folder", "year_out_of_table", "parse_soup"])
        good, _f = gen_ledger(rng, Opts(capital=False, splits=True, n_sec=(1, 2), steps=(2, 6)))
        fmt = rng.choice(["plain", "json", "pdf"])
        files_written, dirs_made = [], []
        with Sandbox(ALL_YEARS_TOML) as sb:
            def W(name, data):
                files_written.append([name, {"b64": base64.b64encode(data).decode()} if isinstance(data, bytes) else data])
                return sb.write(name, data)

            def MK(name):
                dirs_made.append(name)
                os.makedirs(os.path.join(sb.cwd, name))
            W("good.cgt", render_dsl(good))
            args = None
            pre = {}
            expect_fail = True
            out_name = None
            stdout_path = None
            if fault == "missing_input":
                args = ["report", "nope.cgt", "--format", fmt, "--output", "out.bin"]
                out_name = "out.bin"
            elif fault == "directory_input":
                MK("dir.cgt")
                args = ["report", "dir.cgt", "--format", fmt]
            elif fault == "non_utf8_input":
                W("bad.cgt", b"2024-01-01 BUY X 1 @ 1\n\xff\xfe\x00garbage\n")
                args = ["report", "good.cgt", "bad.cgt", "--format", fmt, "--output", "out.bin"]
                out_name = "out.bin"
            elif fault == "unwritable_output":
                args = ["report", "good.cgt", "--format", fmt, "--output", "no/such/dir/out.bin"]
            elif fault == "preexisting_output_on_failure":
                W("keep.out", "PRECIOUS")
                W("bad.cgt", "2024-01-01 SELL X 5 @ 1\n")
                args = ["report", "bad.cgt", "--format", fmt, "--output", "keep.out"]
                out_name = "keep.out"
            elif fault == "preexisting_default_pdf":
                W("good.pdf", "PRECIOUS")
                args = ["report", "good.cgt", "--format", "pdf"]
                out_name = "good.pdf"
            elif fault == "preexisting_default_pdf_multi":
                # several inputs: the default path is ./report.pdf
                W("report.pdf", "PRECIOUS")
                W("second.cgt", "2020-01-06 BUY ZZ 1 @ 1\n")
                args = ["report", "good.cgt", "second.cgt", "--format", "pdf"]
                out_name = "report.pdf"
            elif fault == "bad_ledger":
                W("bad.cgt", render_dsl(good) + "2031-01-01 SELL NOPE 5 @ 1\n")
                args = ["report", "bad.cgt", "--format", fmt] + (["--output", "o.bin"] if fmt == "pdf" or rng.random() < 0.5 else [])
                out_name = "o.bin" if "--output" in args else None
            elif fault in ("soup_file", "parse_soup"):
                W("s.cgt", soup(rng).encode("utf-8", "replace"))
                args = (["report", "s.cgt", "--format", fmt] + (["--output", "o.bin"] if fmt == "pdf" else [])) if fault == "soup_file" else ["parse", "s.cgt"]
                out_name = "o.bin" if "--output" in args else None
                expect_fail = None   # may legitimately succeed (e.g. empty or all-comment soup)
            elif fault == "ok_run":
                args = ["report", "good.cgt", "--format", fmt] + (["--output", "o.bin"] if fmt == "pdf" else [])
                expect_fail = False
            elif fault == "overflow_ledger":
                W("big.cgt", "2024-01-01 BUY X 70000000000000000000000000000 @ 70000000000000000000000000000\n2024-02-01 SELL X 1 @ 1\n")
                args = ["report", "big.cgt", "--format", fmt, "--output", "o.bin"]
                out_name = "o.bin"
            elif fault == "stdout_dev_full":
                args = ["report", "good.cgt", "--format", rng.choice(["plain", "json"])]
                stdout_path = "/dev/full"
                expect_fail = None
            elif fault == "convert_bad_json":
                W("t.json", soup(rng).encode("utf-8", "replace"))
                args = ["convert", "schwab", "t.json", "--output", "c.cgt"]
                out_name = "c.cgt"
            elif fault == "convert_missing_awards":
                W("t.json", json.dumps({"BrokerageTransactions": [{"Date": "01/15/2024", "Action": "Stock Plan Activity", "Symbol": "X",
                                                                         "Description": "", "Quantity": "5", "Price": "", "Fees & Comm": "", "Amount": ""}]}))
                args = ["convert", "schwab", "t.json"] + (["--awards", "missing.json"] if rng.random() < 0.5 else [])
            elif fault == "bad_fx_folder":
                MK("fx")
                W("fx/2024-01.xml", rng.choice(["<not xml", "", "<exchangeRateMonthList Period='x'></exchangeRateMonthList>"]))
                args = ["report", "good.cgt", "--format", fmt, "--fx-folder", rng.choice(["fx", "nofolder"])] + (["--output", "o.bin"] if fmt == "pdf" else [])
                out_name = "o.bin" if "--output" in args else None
            elif fault == "year_out_of_table":
                args = ["report", "good.cgt", "--year", rng.choice(["1899", "2101", "-1", "99999999999", "abc"]), "--format", fmt] + (["--output", "o.bin"] if fmt == "pdf" else [])
                out_name = "o.bin" if "--output" in args else None
            before = sb.listing()
            r = sb.run(args, stdout_path=stdout_path)
            if r["timeout"]:
                # bounded progress: the watchdog (120 s) fired; only three firings in a row count as "does not terminate"
                r["timeout_confirmed"] = all(sb.run(args, stdout_path=stdout_path)["timeout"] for _ in range(2))
            after = sb.listing()
        cnt["fault_" + fault] += 1
        cnt["process_runs"] += 1
        hashes.add(sha([fault, args, render_dsl(good)])[:16])
        case = {"op": "fault", "fault": fault, "args": args, "format": fmt, "expect_fail": expect_fail,
                "stdout_path": stdout_path, "files": files_written, "dirs": dirs_made}
        vs_, failed = judge_fault(fault, args, r, before, after, expect_fail, stdout_path, cnt, case)
        viols += vs_
        if failed is None:
            continue
        if len(samples) < 1 and failed:
            samples.append({"fault": fault, "command": " ".join(args), "exit": r["exit"], "stdout_bytes": len(r["stdout"]),
                            "stderr": r["stderr"][:160]})
    return {"evaluations": cnt["process_runs"], "nontrivial_hashes": hashes, "counters": cnt, "violations": cap_viols(viols), "samples": samples}


def run_mcp_soup(desc):
    """MCP tools on hostile text: every request must be answered exactly once (a result or an error), the server
    must stay up until stdin closes and exit 0."""
    from ..mcpdrv import Session, call, check_history
    from .c20 import json_soup, small_ledger
    from ..gen.ledger import render_dsl as rdsl
    rng = rng_for(PROP, desc["seed"], "mcp_soup", desc["shard"])
    cnt, viols, hashes = Counter(), [], set()
    pool = []
    for _ in range(3):
        t_ = small_ledger(rng)
        pool.append({"txs": t_, "fx": False, "dsl": rdsl(t_), "json": ""})
    ctx = {"pool": pool}
    sess = Session()
    reqs = []
    for i in range(desc["n"]):
        if rng.random() < 0.6:
            text, how = json_soup(rng, ctx)
        else:
            text, how = soup(rng), "dsl-soup"
        tool = rng.choice(["parse_transactions", "calculate_report", "convert_to_dsl", "explain_matching"])
        args = {"transactions": text}
        if tool == "explain_matching":
            args.update(disposal_date=rng.choice(["2024-01-01", "x", ""]), ticker=rng.choice(["X", "", "é"]))
        if tool == "calculate_report" and rng.random() < 0.3:
            args["year"] = rng.choice([2020, -1, 99999, 1899])
        reqs.append((call(i + 1, tool, args), how))
    for j in range(0, len(reqs), 16):
        sess.send([r for r, _ in reqs[j:j + 16]])
    sess.wait_for([r["id"] for r, _ in reqs], 60)
    end = sess.finish()
    hv, stats, resp = check_history(sess, end)
    cnt["mcp_soup_requests"] += len(reqs)
    cnt["mcp_soup_answered"] += len(resp)
    for r, how in reqs:
        cnt["mcp_soup_" + how] += 1
        hashes.add(sha(r)[:16])
    for name, detail in hv:
        how = ""
        m = re.match(r"(\d+) ", detail)
        if m:
            how = ":" + next((h for r, h in reqs if r["id"] == int(m.group(1))), "")
        viols.append({"clause": "mcp-" + name, "signature": "mcp-" + name + how, "detail": detail,
                      "case": {"op": "mcp-soup", "request": next((r for r, h in reqs if m and r["id"] == int(m.group(1))), None)}})
    return {"evaluations": len(reqs), "nontrivial_hashes": hashes, "counters": cnt, "violations": cap_viols(viols), "samples": []}


def run_shard(desc):
    k = desc["kind"]
    if k == "mcp_soup":
        return run_mcp_soup(desc)
    if k == "soup":
        return run_soup(desc)
    if k == "hostile_moderate":
        return run_hostile(desc, False)
    if k == "hostile_extreme":
        return run_hostile(desc, True)
    if k == "validator":
        return run_validator(desc)
    if k == "convert_soup":
        return run_convert_soup(desc)
    return run_faults(desc)


def replay(case):
    if case.get("op") in ("calc", "parse", "validate", "convert", "to_dsl"):
        o = probe().one(case)
        vs = [{"clause": "panic", "signature": panic_signature(o["panic"], "replay"), "detail": str(o["panic"])[:200]}] if "panic" in o else []
        return vs, o
    if case.get("op") == "fault" and "files" in case:
        from ..clidrv import Sandbox, ALL_YEARS_TOML
        with Sandbox(ALL_YEARS_TOML) as sb:
            for name, data in case["files"]:
                sb.write(name, base64.b64decode(data["b64"]) if isinstance(data, dict) else data)
            for dname in case["dirs"]:
                os.makedirs(os.path.join(sb.cwd, dname), exist_ok=True)
            before = sb.listing()
            r = sb.run(case["args"], stdout_path=case.get("stdout_path"))
            after = sb.listing()
        vs, _failed = judge_fault(case["fault"], case["args"], r, before, after, case.get("expect_fail"),
                                  case.get("stdout_path"), Counter(), case)
        return vs, {"exit": r["exit"], "stderr": r["stderr"][:400], "stdout_bytes": len(r["stdout"]),
                    "files_after": sorted(after)}
    return [], {"note": "fault cases recorded before the sandbox contents were kept: re-run the shard"}


THRESHOLDS = {"ok_runs_succeeded": 8, "library_calls": 8000, "hostile_moderate_ledgers": 2000, "hostile_extreme_ledgers": 2000, "validator_cases": 2000,
              "validator_valid_inputs": 100, "validator_reason_quantity<=0": 200, "validator_reason_ratio<=0": 100,
              "validator_reason_fee<0": 100, "validator_reason_price/total<0": 200, "process_runs": 100,
              "failing_runs_observed": 50, "default_pdf_overwrite_refused": 3,
              "mcp_soup_answered": 300}
RULE = ("byte/token soup and mutated valid files into parse/report/convert; structurally valid hostile ledgers in a "
        "moderate regime (|x| in {0} u [1e-8, 1e9]) and an extreme regime (up to 7.9e28, down to 1e-28; calendar ends; "
        "currencies outside the table; absurd year filters); validator verdict vs its stated predicate on structs built "
        "in the harness; CLI fault sequences (missing/directory/non-UTF-8 input, unwritable or pre-existing output, "
        "pre-existing default PDF path, bad rate folder, /dev/full stdout); distinct by case hash")
