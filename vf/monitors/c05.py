"""C05 - a report is produced iff every sale is covered by shares held (library + CLI [+ MCP])."""
from __future__ import annotations

import copy
import datetime as dt
import re
from collections import Counter
from fractions import Fraction

from ..gen.ledger import Opts, gen_ledger, render_dsl
from ..model import hmrc
from ..probe import probe
from ..util import cap_viols, rng_for, sha, fr, dstr, iso, d as pdate, ZERO
from . import ledger_core as lc

PROP = "C05"

BASE = dict(capital=False, splits=True, n_sec=(1, 3), dividends=True)


def plan(tier, seed):
    n = 60 if tier == "quick" else 2400
    shards = [{"kind": "lib", "seed": seed, "shard": i, "n": 300} for i in range(n)]
    k = 32 if tier == "quick" else 200
    shards += [{"kind": "cli", "seed": seed, "shard": i, "n": 24} for i in range(k)]
    shards += [{"kind": "mcp", "seed": seed, "shard": i, "n": 40} for i in range(2 if tier == "quick" else 40)]
    return shards


# ---- uncovered-ledger classes ------------------------------------------------

def mut_truncate(rng, txs):
    """Earlier purchases missing (truncated broker export)."""
    buys = [i for i, t in enumerate(txs) if t["kind"] == "BUY"]
    if not buys:
        return None
    k = rng.choice(buys[: max(1, len(buys) // 2)])
    if rng.random() < 0.5:
        return txs[:k] + txs[k + 1:]
    return txs[k + 1:]


def mut_duplicate_sale(rng, txs):
    """Duplicated sale rows (overlapping export chunks)."""
    sells = [i for i, t in enumerate(txs) if t["kind"] == "SELL"]
    if not sells:
        return None
    i = rng.choice(sells)
    out = list(txs)
    for _ in range(rng.choice([1, 1, 2])):
        out.insert(i, copy.deepcopy(txs[i]))
    return out


def mut_epsilon(rng, txs):
    """One sale raised by the smallest tick / a chunk above what is held."""
    sells = [i for i, t in enumerate(txs) if t["kind"] == "SELL"]
    if not sells:
        return None
    i = rng.choice(sells)
    out = copy.deepcopy(txs)
    q = fr(out[i]["amount"])
    # find holding just before: raise by holding-after + tick so that it is uncovered on that date
    days = hmrc.build_days(txs)[0]
    tk = out[i]["ticker"]
    pos = ZERO
    target = pdate(out[i]["date"])
    for day in days[tk]:
        pos += day.A - day.S
        if day.date == target:
            break
        for m in day.splits:
            pos *= m
    bump = rng.choice([Fraction(1, 10 ** 6), Fraction(1), pos])
    newq = q + pos + bump
    try:
        out[i]["amount"] = dstr(Fraction(int(newq * 10 ** 6) + 1, 10 ** 6))
    except ValueError:
        return None
    return out


def tpl_companion(rng):
    """Earlier companion sale matched to a later repurchase (30-day), second sale sells shares not held."""
    n = rng.choice([1, 10, 100, 250])
    extra = rng.choice([0, 0, 5])
    D = dt.date(rng.randint(2016, 2024), rng.randint(1, 12), rng.randint(1, 28))
    g1 = rng.randint(1, 20)
    g2 = rng.randint(1, 30 - g1) if g1 < 30 else 1
    tk = rng.choice(["AAA", "VOD", "X"])

    def t(kind, date, q, p):
        return {"date": iso(date), "ticker": tk, "kind": kind, "amount": dstr(Fraction(q)),
                "price": [str(p), "GBP"], "fees": ["0", "GBP"]}
    txs = [t("BUY", D - dt.timedelta(days=rng.choice([1, 40, 400])), n + extra, 10),
           t("SELL", D, n, 12),
           t("SELL", D + dt.timedelta(days=g1), n, 11),
           t("BUY", D + dt.timedelta(days=g1 + g2), n, 9)]
    if extra and rng.random() < 0.5:
        txs[2]["amount"] = dstr(Fraction(n))
    return txs


def tpl_split_oversell(rng):
    """Oversell that only appears after a split/unsplit."""
    tk = rng.choice(["BBB", "Z9"])
    D = dt.date(rng.randint(2016, 2024), rng.randint(1, 12), rng.randint(1, 28))
    n = rng.choice([10, 100, 1000])
    ratio = rng.choice(["2", "4", "5", "10", "3"])
    un = rng.random() < 0.7
    held = Fraction(n) / Fraction(ratio) if un else Fraction(n) * Fraction(ratio)
    q = (Fraction(n) if un else held + 1)  # sells the pre-split count after an UNSPLIT -> uncovered
    txs = [{"date": iso(D), "ticker": tk, "kind": "BUY", "amount": str(n), "price": ["5", "GBP"], "fees": ["0", "GBP"]},
           {"date": iso(D + dt.timedelta(days=rng.randint(1, 50))), "ticker": tk,
            "kind": "UNSPLIT" if un else "SPLIT", "ratio": ratio},
           {"date": iso(D + dt.timedelta(days=rng.randint(51, 90))), "ticker": tk, "kind": "SELL",
            "amount": dstr(Fraction(int(q * 1000), 1000)), "price": ["7", "GBP"], "fees": ["1", "GBP"]}]
    if rng.random() < 0.4:
        txs.append({"date": iso(D + dt.timedelta(days=rng.randint(91, 110))), "ticker": tk, "kind": "BUY",
                    "amount": str(n), "price": ["6", "GBP"], "fees": ["0", "GBP"]})
    return txs


def gen_case(rng):
    """-> (txs, cls)"""
    k = rng.random()
    opts = Opts(**BASE)
    if k < 0.35:
        txs, _ = gen_ledger(rng, opts)
        return txs, "base"
    if k < 0.5:
        base, _ = gen_ledger(rng, opts)
        return (mut_truncate(rng, base) or base), "truncated"
    if k < 0.65:
        base, _ = gen_ledger(rng, opts)
        return (mut_duplicate_sale(rng, base) or base), "duplicated_sale"
    if k < 0.75:
        base, _ = gen_ledger(rng, opts)
        return (mut_epsilon(rng, base) or base), "epsilon_over"
    if k < 0.88:
        txs = tpl_companion(rng)
        if rng.random() < 0.5:
            other, _ = gen_ledger(rng, Opts(**dict(BASE, n_sec=(1, 1))))
            other = [t for t in other if t["ticker"] not in {x["ticker"] for x in txs}]
            txs = sorted(txs + other, key=lambda t: t["date"])
        return txs, "companion_matched_to_repurchase"
    return tpl_split_oversell(rng), "oversell_after_split"


ERR_RE = re.compile(r"(\d{4}-\d{2}-\d{2})")


def classify(txs, obs, cls, cnt):
    """Library-boundary oracle. Returns violation list."""
    model = hmrc.evaluate(txs)
    unc = model["uncovered"]
    v = []
    if "panic" in obs:
        cnt["panic(routed to C15)"] += 1
        return v
    if not unc:
        cnt["covered"] += 1
        cnt["covered_" + cls] += 1
        # exact-holding sales: a disposal day after which the position is exactly zero
        for tk, days in model["days"].items():
            pos = ZERO
            for day in days:
                pos += day.A - day.S
                if day.S > 0 and pos == 0:
                    cnt["covered_sells_exact_holding"] += 1
                for m in day.splits:
                    pos *= m
        if "err" in obs:
            msg = obs["err"]["message"]
            v.append({"clause": "covered-refused", "detail": f"covered ledger refused: {msg}",
                      "sigdata": residue_class(txs, msg)})
        return v
    cnt["uncovered"] += 1
    cnt["uncovered_" + cls] += 1
    if "ok" in obs:
        v.append({"clause": "uncovered-accepted",
                  "detail": f"report produced although {dict((k, str(d)) for k, d in unc.items())} is not covered",
                  "sigdata": "class=" + cls})
        return v
    err = obs["err"]
    msg = err["message"]
    if err["kind"] != "InvalidTransaction":
        v.append({"clause": "uncovered-wrong-error", "detail": f"{err['kind']}: {msg}", "sigdata": err["kind"]})
        return v
    # must name a security and its first uncovered date
    named = [(tk, dd) for tk, dd in unc.items()
             if re.search(r"\b" + re.escape(tk) + r"\b", msg) and iso(dd) in msg]
    if not named and residue_class(txs, msg).startswith("holding-short-by-decimal-residue"):
        # the tool stopped earlier, at a sale the model says is covered, on decimal residue
        v.append({"clause": "covered-refused", "detail": f"covered prefix refused: {msg}",
                  "sigdata": residue_class(txs, msg)})
    elif not named:
        v.append({"clause": "error-does-not-name-security-and-date",
                  "detail": f"uncovered {dict((k, str(d)) for k, d in unc.items())} but error says: {msg}",
                  "sigdata": ""})
    else:
        cnt["uncovered_error_names_security_and_date"] += 1
    return v


def residue_excuse(txs, msg):
    """Why could decimal residue arise for the security named in a holding-short error?  Returns a tag:
    'inexact-holding'      some holding of that security, walked in exact arithmetic, is not a <=28-digit decimal
                            (e.g. 100 shares after UNSPLIT 3), so no decimal implementation can carry it exactly;
    '30-day-match-across-such-a-split'  all holdings are exact decimals but a 30-day match spans a split whose
                            ratio or reciprocal does not terminate (the look-ahead converts through the reciprocal);
    'none'                 neither: nothing in the ledger explains a residue."""
    from ..util import is_terminating
    m = re.search(r"SELL (\S+) on", msg)
    if not m:
        return "none"
    tk = m.group(1)
    sub = [t for t in txs if t["ticker"].upper() == tk.upper()]
    try:
        model = hmrc.evaluate(sub)
        bad = model["uncovered"].get(tk.upper())
        if bad is not None:     # judge the covered prefix (the refusal came before the first uncovered date)
            sub = [t for t in sub if pdate(t["date"]) < bad]
            model = hmrc.evaluate(sub)
    except Exception:
        return "none"
    days = model["days"].get(tk.upper(), [])
    pos = ZERO
    inexact = False
    for day in days:
        pos += day.A - day.S
        for mlt in day.splits:
            pos *= mlt
            if not is_terminating(pos) or len(str(pos.numerator)) > 28:
                inexact = True
    if inexact:
        return "inexact-holding"
    if "ident" in model:
        for d_ in model["ident"][tk.upper()]["disposals"]:
            for l in d_["legs"]:
                if l["rule"] == "BedAndBreakfast":
                    for day in days:
                        if d_["date"] <= day.date < l["acq"]:
                            for mlt in day.splits:
                                if not is_terminating(mlt) or not is_terminating(1 / mlt):
                                    return "30-day-match-across-such-a-split"
    return "none"


def residue_class(txs, msg):
    """Narrow signature data for refusals of covered ledgers."""
    m = re.search(r"disposal of ([0-9.]+) shares exceeds holding of ([0-9.]+)", msg)
    if m:
        q, h = Fraction(m.group(1)), Fraction(m.group(2))
        if q > 0 and (q - h) < q * Fraction(1, 10 ** 15) and lc.nonterminating_split(txs):
            return "holding-short-by-decimal-residue:nonterminating-split-ratio:" + residue_excuse(txs, msg)
        return "holding-exceeded"
    m = re.search(r"exceeds holding: attempted ([0-9.]+), matched ([0-9.]+), unmatched ([0-9.]+)", msg)
    if m:
        q, u = Fraction(m.group(1)), Fraction(m.group(3))
        if q > 0 and u < q * Fraction(1, 10 ** 15) and lc.nonterminating_split(txs):
            return "holding-short-by-decimal-residue:nonterminating-split-ratio:" + residue_excuse(txs, msg)
        return "holding-exceeded"
    if "B&B reservation exceeds buy amount" in msg:
        return "bnb-reservation-exceeds-buy" + (":nonterminating-split-ratio" if lc.nonterminating_split(txs) else "")
    msg = re.sub(r"^(Error: )?(Invalid transaction: )?", "", msg.strip())
    return re.sub(r"[0-9][0-9.\-]*", "N", msg)[:80]


def sig(v):
    return v["clause"] + (":" + v["sigdata"] if v.get("sigdata") else "")


def run_lib(desc):
    rng = rng_for(PROP, desc["seed"], "lib", desc["shard"])
    cases = [gen_case(rng) for _ in range(desc["n"])]
    cnt = Counter()
    viols = []
    hashes = set()
    samples = []
    obs = probe().run([lc.calc_case(t, front=True) for t, _ in cases])
    for (txs, cls), o in zip(cases, obs):
        vs = classify(txs, o, cls, cnt)
        hashes.add(sha(txs)[:16])
        for x in vs:
            x["signature"] = sig(x)
            x["case"] = {"op": "calc", "txs": txs, "cls": cls}
            viols.append(x)
        if len(samples) < 2 and "err" in o and len(txs) <= 8 and not vs:
            samples.append({"class": cls, "ledger": lc.brief(txs), "tool_error": o["err"]["message"][:200]})
    return {"evaluations": len(cases), "nontrivial_hashes": hashes, "counters": cnt,
            "violations": cap_viols(viols), "samples": samples}


def run_cli(desc):
    """Process boundary: uncovered ledger -> exit != 0, empty stdout, no --output file, any format."""
    from ..clidrv import run_cli_report
    rng = rng_for(PROP, desc["seed"], "cli", desc["shard"])
    cnt = Counter()
    viols = []
    hashes = set()
    samples = []
    for i in range(desc["n"]):
        txs, cls = gen_case(rng)
        model = hmrc.evaluate(txs)
        unc = model["uncovered"]
        fmt = rng.choice(["plain", "json", "pdf"])
        use_output = fmt == "pdf" or rng.random() < 0.5
        r = run_cli_report(render_dsl(txs), fmt=fmt, use_output=use_output, config_all_years=True)
        hashes.add(sha([txs, fmt, use_output])[:16])
        cnt[f"cli_runs_{fmt}"] += 1
        if r.get("timeout"):
            cnt["cli_timeouts(inconclusive)"] += 1
            continue
        if unc:
            cnt["cli_uncovered"] += 1
            bad = []
            if r["exit"] == 0:
                bad.append("exit status 0")
            if r["exit"] is not None and r["exit"] < 0 or r["exit"] == 101:
                bad.append(f"crash exit {r['exit']}")
            if r["stdout"]:
                bad.append(f"{len(r['stdout'])} bytes on stdout")
            if r["output_exists"]:
                bad.append("--output file created")
            if r["new_files"]:
                bad.append(f"files created: {r['new_files']}")
            named = [(tk, dd) for tk, dd in unc.items() if tk in r["stderr"] and iso(dd) in r["stderr"]]
            if not bad and not named and residue_class(txs, r["stderr"]).startswith("holding-short-by-decimal-residue"):
                viols.append({"clause": "covered-refused", "detail": "cli: covered prefix refused: " + r["stderr"][:200],
                              "signature": "covered-refused:" + residue_class(txs, r["stderr"]),
                              "case": {"op": "cli", "txs": txs, "fmt": fmt, "use_output": use_output}})
                continue
            if not bad and not named:
                bad.append("stderr does not name security and date: " + r["stderr"][:200])
            if bad:
                viols.append({"clause": "cli-uncovered", "detail": "; ".join(bad) + f" (format {fmt})",
                              "signature": "cli-uncovered:" + bad[0].split(":")[0],
                              "case": {"op": "cli", "txs": txs, "fmt": fmt, "use_output": use_output}})
            elif len(samples) < 1:
                samples.append({"cli": f"report --format {fmt}" + (" --output F" if use_output else ""),
                                "ledger": lc.brief(txs, 8), "exit": r["exit"], "stdout_bytes": 0,
                                "stderr": r["stderr"][:160]})
        else:
            cnt["cli_covered"] += 1
            if r["exit"] != 0:
                msg = r["stderr"]
                viols.append({"clause": "cli-covered-refused", "detail": msg[:300],
                              "signature": "covered-refused:" + residue_class(txs, msg),
                              "case": {"op": "cli", "txs": txs, "fmt": fmt, "use_output": use_output}})
            elif use_output and not r["output_exists"]:
                viols.append({"clause": "cli-covered-no-output", "detail": "exit 0 but --output missing",
                              "signature": "cli-covered-no-output",
                              "case": {"op": "cli", "txs": txs, "fmt": fmt, "use_output": use_output}})
    return {"evaluations": desc["n"], "nontrivial_hashes": hashes, "counters": cnt,
            "violations": viols, "samples": samples}


def run_mcp(desc):
    """Protocol boundary: an uncovered ledger gets a JSON-RPC error (never a result, partial or otherwise) from
    calculate_report and explain_matching; a covered one gets a result."""
    import json
    from ..mcpdrv import Session, call, check_history
    rng = rng_for(PROP, desc["seed"], "mcp", desc["shard"])
    cnt = Counter()
    viols = []
    hashes = set()
    sess = Session()
    reqs = []
    for i in range(desc["n"]):
        txs, cls = gen_case(rng)
        unc = hmrc.evaluate(txs)["uncovered"]
        tool = rng.choice(["calculate_report", "calculate_report", "explain_matching"])
        args = {"transactions": render_dsl(txs)}
        if tool == "explain_matching":
            sells = [t for t in txs if t["kind"] == "SELL"]
            if not sells:
                tool = "calculate_report"
            else:
                s_ = rng.choice(sells)
                args.update(disposal_date=s_["date"], ticker=s_["ticker"])
        reqs.append((call(i + 1, tool, args), txs, unc, tool))
    for j in range(0, len(reqs), 8):
        sess.send([r for r, _, _, _ in reqs[j:j + 8]])
    sess.wait_for([r["id"] for r, _, _, _ in reqs], 120)
    end = sess.finish()
    hv, stats, resp = check_history(sess, end)
    for name, detail in hv:
        viols.append({"clause": "mcp-" + name, "signature": "mcp-" + name, "detail": detail, "case": {"op": "mcp"}})
    for r, txs, unc, tool in reqs:
        a = resp.get(Session.idkey(r["id"]))
        if a is None:
            continue
        hashes.add(sha([txs, tool])[:16])
        is_result = "result" in a and not a["result"].get("isError")
        if unc:
            cnt["mcp_uncovered"] += 1
            if is_result:
                viols.append({"clause": "mcp-uncovered-answered-with-result", "signature": "mcp-uncovered-answered-with-result:" + tool,
                              "detail": json.dumps(a)[:200], "case": {"op": "calc", "txs": txs, "cls": "mcp"}})
            else:
                msg = a.get("error", {}).get("message", "")
                if not any(tk in msg and iso(dd) in msg for tk, dd in unc.items()):
                    if residue_class(txs, msg).startswith("holding-short-by-decimal-residue"):
                        continue
                    viols.append({"clause": "mcp-error-does-not-name-security-and-date", "signature": "mcp-error-does-not-name-security-and-date",
                                  "detail": msg[:200], "case": {"op": "calc", "txs": txs, "cls": "mcp"}})
                else:
                    cnt["mcp_uncovered_error_names_security_and_date"] += 1
        else:
            cnt["mcp_covered"] += 1
            if not is_result and tool == "calculate_report":
                msg = a.get("error", {}).get("message", "")
                viols.append({"clause": "covered-refused", "signature": "covered-refused:" + residue_class(txs, msg.split("\n\n")[1] if "\n\n" in msg else msg),
                              "detail": "mcp: " + msg[:200], "case": {"op": "calc", "txs": txs, "cls": "mcp"}})
    return {"evaluations": len(reqs), "nontrivial_hashes": hashes, "counters": cnt, "violations": cap_viols(viols), "samples": []}


def run_shard(desc):
    return {"lib": run_lib, "cli": run_cli, "mcp": run_mcp}[desc["kind"]](desc)


def replay(case):
    if case.get("op") == "cli":
        from ..clidrv import run_cli_report
        r = run_cli_report(render_dsl(case["txs"]), fmt=case["fmt"], use_output=case["use_output"],
                           config_all_years=True)
        unc = hmrc.evaluate(case["txs"])["uncovered"]
        vs = []
        if unc and (r["exit"] == 0 or r["stdout"] or r["output_exists"]):
            vs.append({"clause": "cli-uncovered", "signature": "cli-uncovered:replay", "detail": str(r)[:400]})
        if not unc and r["exit"] != 0:
            vs.append({"clause": "cli-covered-refused", "detail": r["stderr"][:300],
                       "signature": "covered-refused:" + residue_class(case["txs"], r["stderr"])})
        return vs, r
    cnt = Counter()
    o = probe().one(lc.calc_case(case["txs"], front=True))
    vs = classify(case["txs"], o, case.get("cls", "replay"), cnt)
    for x in vs:
        x["signature"] = sig(x)
    return vs, o


THRESHOLDS = {"uncovered_truncated": 100, "uncovered_duplicated_sale": 100,
              "uncovered_companion_matched_to_repurchase": 100, "uncovered_oversell_after_split": 100,
              "uncovered_epsilon_over": 100, "covered_sells_exact_holding": 500, "cli_uncovered": 30,
              "mcp_uncovered": 20}
RULE = ("covered shape-directed ledgers and uncovered mutants (truncated history, duplicated sale rows, sale raised "
        "above the holding by a tick, companion sale matched to a later repurchase, oversell appearing only after a "
        "split/unsplit); coverage decided by the model predicate alone; library boundary plus real CLI runs in all "
        "three formats; distinct by ledger hash")
