"""Shared observation + normalisation for the ledger-based monitors (C01-C07, C09-C12)."""
from __future__ import annotations

import random
import re
from collections import defaultdict
from fractions import Fraction

from ..util import cap_viols, fr, d as pdate, ZERO, DUST, TOL_10DP, TOL_FINE

ALL_YEARS = {"range": [1899, 2101, "3000"]}


_NUM = re.compile(r"^[0-9]+(\.[0-9]+)?$")
_TK = re.compile(r"^[A-Za-z0-9]+$")
_KINDS = {"BUY", "SELL", "DIVIDEND", "ACCUMULATION", "CAPRETURN", "SPLIT", "UNSPLIT"}
FRONT_DOOR_ONE_IN = 4


def front_door_text(txs):
    """For one ledger in FRONT_DOOR_ONE_IN (chosen by its hash, so a replay makes the same choice) the text a user would
    have written: the same lines as DSL in a random lexical style (keyword / currency / ticker case, spacing, comments,
    blank lines, line endings, GBP omitted). The library then sees the ledger through its real parser instead of
    through structs built by the harness, so the matching-engine monitors also cover parser -> engine hand-over.
    Zero FEES/TAX clauses are never omitted (their currency may be the only use of a rate). None = use the structs."""
    from ..util import sha
    h = sha(txs)
    if int(h[:6], 16) % FRONT_DOOR_ONE_IN:
        return None
    for t in txs:
        if t.get("kind") not in _KINDS or not _TK.match(t.get("ticker", "")) or not re.match(r"^\d{4}-\d\d-\d\d$", t["date"]):
            return None
        for f in ("amount", "ratio"):
            if f in t and (not _NUM.match(t[f]) or Fraction(t[f]) <= 0):
                return None
        for f in ("price", "fees", "total", "tax"):
            if f in t and (not _NUM.match(t[f][0]) or not re.match(r"^[A-Za-z]{3}$", t[f][1])):
                return None
    from ..model.dsl import Style, render
    rng = random.Random(h)
    st = Style(rng)
    st.omit_zero_clause_p = 0
    return render(rng, txs, style=st)[0]


def calc_case(txs=None, *, dsl=None, json_text=None, year=None, fx=None, exemptions=ALL_YEARS,
              record=False, shuffle=None, outputs=None, cid=None, front=False):
    c = {"op": "calc", "exemptions": exemptions}
    if txs is not None:
        text = front_door_text(txs) if front else None
        if text is not None:
            c["dsl"] = text
        else:
            c["txs"] = txs
    if dsl is not None:
        c["dsl"] = dsl
    if json_text is not None:
        c["json"] = json_text
    if year is not None:
        c["year"] = year
    if fx is not None:
        c["fx"] = fx
    if record:
        c["record"] = True
    if shuffle is not None:
        c["shuffle"] = shuffle
    if outputs:
        c["outputs"] = outputs
    if cid is not None:
        c["id"] = cid
    return c


def parse_report(rep):
    """Wire report -> exact structure. Legs below DUST are dropped."""
    years = []
    for y in rep["tax_years"]:
        disposals = []
        for dd in y["disposals"]:
            legs = []
            for m in dd["matches"]:
                q = fr(m["quantity"])
                leg = {"rule": m["rule"], "qty": q, "cost": fr(m["allowable_cost"]),
                       "gain": fr(m["gain_or_loss"]),
                       "acq": pdate(m["acquisition_date"]) if m["acquisition_date"] else None}
                legs.append(leg)
            disposals.append({"date": pdate(dd["date"]), "ticker": dd["ticker"], "qty": fr(dd["quantity"]),
                              "gross": fr(dd["gross_proceeds"]), "net": fr(dd["proceeds"]), "legs": legs})
        years.append({"start_year": y["start_year"], "period": y["period"], "disposals": disposals,
                      "disposal_count": y["disposal_count"],
                      "total_gain": fr(y["total_gain"]), "total_loss": fr(y["total_loss"]),
                      "net_gain": fr(y["net_gain"]), "exempt_amount": fr(y["exempt_amount"]),
                      "taxable_gain": fr(y["taxable_gain"]), "gross_proceeds": fr(y["gross_proceeds"]),
                      "dividend_income": fr(y["dividend_income"]),
                      "dividend_tax_paid": fr(y["dividend_tax_paid"])})
    holdings = {h["ticker"]: (fr(h["quantity"]), fr(h["total_cost"])) for h in rep["holdings"]}
    return {"years": years, "holdings": holdings,
            "holdings_order": [h["ticker"] for h in rep["holdings"]]}


def merged_legs(legs):
    """Merge legs of one disposal sharing (rule, acquisition date); drop dust; canonical order."""
    acc = {}
    for l in legs:
        k = (l["rule"], l["acq"])
        a = acc.setdefault(k, {"rule": l["rule"], "acq": l["acq"], "qty": ZERO, "cost": ZERO, "gain": ZERO})
        a["qty"] += l["qty"]
        a["cost"] += l["cost"]
        a["gain"] += l.get("gain", ZERO)
    out = [a for a in acc.values() if abs(a["qty"]) >= DUST]
    order = {"SameDay": 0, "BedAndBreakfast": 1, "Section104": 2}
    out.sort(key=lambda a: (order[a["rule"]], a["acq"] or pdate("0001-01-01")))
    return out


def all_disposals(parsed):
    return [dd for y in parsed["years"] for dd in y["disposals"]]


def close(a: Fraction, b: Fraction, tol: Fraction, scale: Fraction = ZERO) -> bool:
    return abs(a - b) <= tol + Fraction(1, 10 ** 18) * abs(scale)


def brief(txs, limit=60):
    from ..gen.ledger import render_dsl
    lines = render_dsl(txs).splitlines()
    if len(lines) > limit:
        lines = lines[:limit] + [f"... ({len(lines) - limit} more lines)"]
    return lines


def has_kind(txs, *kinds):
    return any(t["kind"] in kinds for t in txs)


def split_trade_same_day(txs):
    """True if some security has a SPLIT/UNSPLIT and a BUY/SELL on one date (F15 shape)."""
    ev = defaultdict(set)
    tr = defaultdict(set)
    for t in txs:
        if t["kind"] in ("SPLIT", "UNSPLIT"):
            ev[t["ticker"]].add(t["date"])
        elif t["kind"] in ("BUY", "SELL"):
            tr[t["ticker"]].add(t["date"])
    return any(ev[k] & tr[k] for k in ev)


def nonterminating_split(txs):
    from ..util import is_terminating
    for t in txs:
        if t["kind"] in ("SPLIT", "UNSPLIT"):
            r = fr(t["ratio"])
            if not is_terminating(1 / r) or not is_terminating(r):
                return True
            # ratios like 3, 7, 0.3 -> 1/r non-terminating
    return False


def run_ledger_cases(cases, oracle, *, record=False, fx=None, sample_fn=None, max_samples=2,
                     nontrivial=None, case_extra=None):
    """cases: list of (txs, feats). oracle(txs, obs, cnt, sets, feats) -> [violation dicts]."""
    from collections import Counter
    from ..probe import probe
    from ..util import sha
    cnt = Counter()
    sets = {}
    viols = []
    hashes = set()
    samples = []
    reqs = []
    for txs, _ in cases:
        c = calc_case(txs, record=record, fx=fx, front=True)
        if "dsl" in c:
            cnt["ledgers_entered_as_DSL_text(random lexical style)"] += 1
        if case_extra:
            c.update(case_extra)
        reqs.append(c)
    obs = probe().run(reqs)
    for (txs, feats), o in zip(cases, obs):
        if "hang" in o:
            cnt["call_without_answer(routed to C15)"] += 1
            continue
        vs = oracle(txs, o, cnt, sets, feats)
        for f in feats:
            cnt["feat_" + f] += 1
        nt = nontrivial(txs, o) if nontrivial else (
            "ok" in o and any(y["disposals"] for y in o["ok"]["report"]["tax_years"]))
        if nt:
            hashes.add(sha(txs)[:16])
        for x in vs:
            x.setdefault("signature", x["clause"])
            x["case"] = {"op": "calc", "txs": txs}
            if fx is not None:
                x["case"]["fx"] = fx
            viols.append(x)
        if sample_fn and len(samples) < max_samples and not vs and len(txs) <= 12:
            s = sample_fn(txs, o)
            if s:
                samples.append(s)
    return {"evaluations": len(cases), "nontrivial_hashes": hashes, "counters": cnt,
            "violations": cap_viols(viols), "samples": samples, "sets": {k: set(v) for k, v in sets.items()}}


def split_factor(days, d_from, d_to):
    """Multiplier taking a quantity in the units of date d_from to the units of date d_to (d_to >= d_from).
    A split dated s applies after the trades of s: included iff d_from <= s < d_to."""
    from ..util import ONE
    f = ONE
    for day in days:
        if day.date >= d_to:
            break
        if day.date >= d_from:
            for m in day.splits:
                f *= m
    return f


# ---------------------------------------------------------------------------------------------
# tool-vs-tool comparison of two parsed reports

def cmp_num(a, b, exact, tol, scale=None):
    if exact:
        return a == b
    return close(a, b, tol, scale if scale is not None else b)


def compare_reports(A, B, *, exact=False, leg_gains=True, qty_scale=None, what=("years", "holdings"),
                    year_totals=True, dividends=True, label=("A", "B")):
    """Differences between two parsed reports (lists of strings). Legs are merged per
    (rule, acquisition date) and dust is dropped. qty_scale: {ticker: {date: factor}} unused here."""
    diffs = []
    la, lb = label
    if "years" in what:
        ya = {y["start_year"]: y for y in A["years"]}
        yb = {y["start_year"]: y for y in B["years"]}
        if [y["start_year"] for y in A["years"]] != [y["start_year"] for y in B["years"]]:
            diffs.append(f"tax years {la}={[y['start_year'] for y in A['years']]} {lb}={[y['start_year'] for y in B['years']]}")
        for sy in sorted(set(ya) & set(yb)):
            a, b = ya[sy], yb[sy]
            da = {(d["date"], d["ticker"]): d for d in a["disposals"]}
            db = {(d["date"], d["ticker"]): d for d in b["disposals"]}
            if [k for k in da] != [k for k in db]:
                diffs.append(f"{sy}: disposal lists differ {la}={[str(k[0]) + ' ' + k[1] for k in da]} {lb}={[str(k[0]) + ' ' + k[1] for k in db]}")
            for k in da:
                if k not in db:
                    continue
                x, y = da[k], db[k]
                for fld, tol in (("qty", TOL_FINE), ("gross", TOL_10DP), ("net", TOL_10DP)):
                    if not cmp_num(x[fld], y[fld], exact, tol):
                        diffs.append(f"{k[1]} {k[0]}: {fld} {la}={float(x[fld])!r} {lb}={float(y[fld])!r}")
                mx, my = merged_legs(x["legs"]), merged_legs(y["legs"])
                if [(l["rule"], l["acq"]) for l in mx] != [(l["rule"], l["acq"]) for l in my]:
                    diffs.append(f"{k[1]} {k[0]}: legs {la}={[(l['rule'], str(l['acq']), float(l['qty'])) for l in mx]} "
                                 f"{lb}={[(l['rule'], str(l['acq']), float(l['qty'])) for l in my]}")
                    continue
                for l1, l2 in zip(mx, my):
                    if not cmp_num(l1["qty"], l2["qty"], exact, TOL_FINE):
                        diffs.append(f"{k[1]} {k[0]} {l1['rule']} {l1['acq']}: quantity {la}={float(l1['qty'])!r} {lb}={float(l2['qty'])!r}")
                    if not cmp_num(l1["cost"], l2["cost"], exact, TOL_FINE * 1000, l2["cost"] * 1000):
                        diffs.append(f"{k[1]} {k[0]} {l1['rule']} {l1['acq']}: cost {la}={float(l1['cost'])!r} {lb}={float(l2['cost'])!r}")
                    if leg_gains and not cmp_num(l1["gain"], l2["gain"], exact, TOL_10DP, abs(l2["gain"]) + abs(l2["cost"])):
                        diffs.append(f"{k[1]} {k[0]} {l1['rule']} {l1['acq']}: gain {la}={float(l1['gain'])!r} {lb}={float(l2['gain'])!r}")
                ga = sum((l["gain"] for l in x["legs"]), ZERO)
                gb = sum((l["gain"] for l in y["legs"]), ZERO)
                if not cmp_num(ga, gb, exact and leg_gains, TOL_10DP, abs(gb) + abs(y["net"])):
                    diffs.append(f"{k[1]} {k[0]}: disposal result {la}={float(ga)!r} {lb}={float(gb)!r}")
            if year_totals:
                for fld in ("total_gain", "total_loss", "net_gain", "exempt_amount", "taxable_gain"):
                    if not cmp_num(a[fld], b[fld], exact and leg_gains, TOL_10DP * 10, abs(b["total_gain"]) + abs(b["total_loss"])):
                        diffs.append(f"{sy}: {fld} {la}={float(a[fld])!r} {lb}={float(b[fld])!r}")
                if a["disposal_count"] != b["disposal_count"]:
                    diffs.append(f"{sy}: disposal_count {la}={a['disposal_count']} {lb}={b['disposal_count']}")
            if dividends:
                for fld in ("dividend_income", "dividend_tax_paid"):
                    if not cmp_num(a[fld], b[fld], exact, TOL_FINE * 1000):
                        diffs.append(f"{sy}: {fld} {la}={float(a[fld])!r} {lb}={float(b[fld])!r}")
    if "holdings" in what:
        ha = {k: v for k, v in A["holdings"].items() if abs(v[0]) >= DUST or abs(v[1]) >= DUST}
        hb = {k: v for k, v in B["holdings"].items() if abs(v[0]) >= DUST or abs(v[1]) >= DUST}
        if set(ha) != set(hb):
            diffs.append(f"holdings {la}={sorted(ha)} {lb}={sorted(hb)}")
        for k in set(ha) & set(hb):
            if not cmp_num(ha[k][0], hb[k][0], exact, TOL_FINE * 1000):
                diffs.append(f"holding {k}: quantity {la}={float(ha[k][0])!r} {lb}={float(hb[k][0])!r}")
            if not cmp_num(ha[k][1], hb[k][1], exact, TOL_FINE * 10 ** 4, hb[k][1] * 1000):
                diffs.append(f"holding {k}: cost {la}={float(ha[k][1])!r} {lb}={float(hb[k][1])!r}")
    return diffs


def nonconsecutive_sells(txs):
    """{(ticker, date)} where >=2 SELL lines of the security on that date are not consecutive once the
    lines are stably sorted by date (the tool merges only consecutive SELL lines) - the F16 shape."""
    out = set()
    order = sorted(range(len(txs)), key=lambda i: txs[i]["date"])
    seq = [txs[i] for i in order]
    from collections import defaultdict
    groups = defaultdict(list)
    for pos, t in enumerate(seq):
        if t["kind"] == "SELL":
            groups[(t["ticker"], t["date"])].append(pos)
    for k, ps in groups.items():
        if len(ps) >= 2:
            # consecutive iff every line between first and last is a SELL of the same ticker
            if any(not (seq[p]["kind"] == "SELL" and seq[p]["ticker"] == k[0]) for p in range(ps[0], ps[-1] + 1)):
                out.add(k)
    return out


def sell_runs(txs):
    """{(ticker, date): tuple of run lengths} - how that day's SELL lines of the security fall into runs of consecutive
    lines once the ledger is stably sorted by date (the tool merges exactly such runs; per-run legs are finding F16)."""
    order = sorted(range(len(txs)), key=lambda i: txs[i]["date"])
    seq = [txs[i] for i in order]
    runs = {}
    prev = None
    for t in seq:
        k = (t["ticker"], t["date"]) if t["kind"] == "SELL" else None
        if k is not None:
            if prev == k:
                runs[k][-1] += 1
            else:
                runs.setdefault(k, []).append(1)
        prev = k
    return {k: tuple(v) for k, v in runs.items()}
