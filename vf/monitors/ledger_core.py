"""Shared observation + normalisation for the ledger-based monitors (C01-C07, C09-C12)."""
from __future__ import annotations

from collections import defaultdict
from fractions import Fraction

from ..util import fr, d as pdate, ZERO, DUST, TOL_10DP, TOL_FINE

ALL_YEARS = {"range": [1899, 2101, "3000"]}


def calc_case(txs=None, *, dsl=None, json_text=None, year=None, fx=None, exemptions=ALL_YEARS,
              record=False, shuffle=None, outputs=None, cid=None):
    c = {"op": "calc", "exemptions": exemptions}
    if txs is not None:
        c["txs"] = txs
    if dsl is not None:
        c["dsl"] = dsl
    if json_text is not None:
        c["json"] = json_text
    if year is not None:
        c["year"] = year
    if fx is not None:
        c["fx"] = fx
    if record:
        c["record"] = True
    if shuffle is not None:
        c["shuffle"] = shuffle
    if outputs:
        c["outputs"] = outputs
    if cid is not None:
        c["id"] = cid
    return c


def parse_report(rep):
    """Wire report -> exact structure. Legs below DUST are dropped."""
    years = []
    for y in rep["tax_years"]:
        disposals = []
        for dd in y["disposals"]:
            legs = []
            for m in dd["matches"]:
                q = fr(m["quantity"])
                leg = {"rule": m["rule"], "qty": q, "cost": fr(m["allowable_cost"]),
                       "gain": fr(m["gain_or_loss"]),
                       "acq": pdate(m["acquisition_date"]) if m["acquisition_date"] else None}
                legs.append(leg)
            disposals.append({"date": pdate(dd["date"]), "ticker": dd["ticker"], "qty": fr(dd["quantity"]),
                              "gross": fr(dd["gross_proceeds"]), "net": fr(dd["proceeds"]), "legs": legs})
        years.append({"start_year": y["start_year"], "period": y["period"], "disposals": disposals,
                      "disposal_count": y["disposal_count"],
                      "total_gain": fr(y["total_gain"]), "total_loss": fr(y["total_loss"]),
                      "net_gain": fr(y["net_gain"]), "exempt_amount": fr(y["exempt_amount"]),
                      "taxable_gain": fr(y["taxable_gain"]), "gross_proceeds": fr(y["gross_proceeds"]),
                      "dividend_income": fr(y["dividend_income"]),
                      "dividend_tax_paid": fr(y["dividend_tax_paid"])})
    holdings = {h["ticker"]: (fr(h["quantity"]), fr(h["total_cost"])) for h in rep["holdings"]}
    return {"years": years, "holdings": holdings,
            "holdings_order": [h["ticker"] for h in rep["holdings"]]}


def merged_legs(legs):
    """Merge legs of one disposal sharing (rule, acquisition date); drop dust; canonical order."""
    acc = {}
    for l in legs:
        k = (l["rule"], l["acq"])
        a = acc.setdefault(k, {"rule": l["rule"], "acq": l["acq"], "qty": ZERO, "cost": ZERO, "gain": ZERO})
        a["qty"] += l["qty"]
        a["cost"] += l["cost"]
        a["gain"] += l.get("gain", ZERO)
    out = [a for a in acc.values() if abs(a["qty"]) >= DUST]
    order = {"SameDay": 0, "BedAndBreakfast": 1, "Section104": 2}
    out.sort(key=lambda a: (order[a["rule"]], a["acq"] or pdate("0001-01-01")))
    return out


def all_disposals(parsed):
    return [dd for y in parsed["years"] for dd in y["disposals"]]


def close(a: Fraction, b: Fraction, tol: Fraction, scale: Fraction = ZERO) -> bool:
    return abs(a - b) <= tol + Fraction(1, 10 ** 18) * abs(scale)


def brief(txs, limit=60):
    from ..gen.ledger import render_dsl
    lines = render_dsl(txs).splitlines()
    if len(lines) > limit:
        lines = lines[:limit] + [f"... ({len(lines) - limit} more lines)"]
    return lines


def has_kind(txs, *kinds):
    return any(t["kind"] in kinds for t in txs)


def split_trade_same_day(txs):
    """True if some security has a SPLIT/UNSPLIT and a BUY/SELL on one date (F15 shape)."""
    ev = defaultdict(set)
    tr = defaultdict(set)
    for t in txs:
        if t["kind"] in ("SPLIT", "UNSPLIT"):
            ev[t["ticker"]].add(t["date"])
        elif t["kind"] in ("BUY", "SELL"):
            tr[t["ticker"]].add(t["date"])
    return any(ev[k] & tr[k] for k in ev)


def nonterminating_split(txs):
    from ..util import is_terminating
    for t in txs:
        if t["kind"] in ("SPLIT", "UNSPLIT"):
            r = fr(t["ratio"])
            if not is_terminating(1 / r) or not is_terminating(r):
                return True
            # ratios like 3, 7, 0.3 -> 1/r non-terminating
    return False
