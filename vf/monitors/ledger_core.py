"""Shared observation + normalisation for the ledger-based monitors (C01-C07, C09-C12)."""
from __future__ import annotations

from collections import defaultdict
from fractions import Fraction

from ..util import fr, d as pdate, ZERO, DUST, TOL_10DP, TOL_FINE

ALL_YEARS = {"range": [1899, 2101, "3000"]}


def calc_case(txs=None, *, dsl=None, json_text=None, year=None, fx=None, exemptions=ALL_YEARS,
              record=False, shuffle=None, outputs=None, cid=None):
    c = {"op": "calc", "exemptions": exemptions}
    if txs is not None:
        c["txs"] = txs
    if dsl is not None:
        c["dsl"] = dsl
    if json_text is not None:
        c["json"] = json_text
    if year is not None:
        c["year"] = year
    if fx is not None:
        c["fx"] = fx
    if record:
        c["record"] = True
    if shuffle is not None:
        c["shuffle"] = shuffle
    if outputs:
        c["outputs"] = outputs
    if cid is not None:
        c["id"] = cid
    return c


def parse_report(rep):
    """Wire report -> exact structure. Legs below DUST are dropped."""
    years = []
    for y in rep["tax_years"]:
        disposals = []
        for dd in y["disposals"]:
            legs = []
            for m in dd["matches"]:
                q = fr(m["quantity"])
                leg = {"rule": m["rule"], "qty": q, "cost": fr(m["allowable_cost"]),
                       "gain": fr(m["gain_or_loss"]),
                       "acq": pdate(m["acquisition_date"]) if m["acquisition_date"] else None}
                legs.append(leg)
            disposals.append({"date": pdate(dd["date"]), "ticker": dd["ticker"], "qty": fr(dd["quantity"]),
                              "gross": fr(dd["gross_proceeds"]), "net": fr(dd["proceeds"]), "legs": legs})
        years.append({"start_year": y["start_year"], "period": y["period"], "disposals": disposals,
                      "disposal_count": y["disposal_count"],
                      "total_gain": fr(y["total_gain"]), "total_loss": fr(y["total_loss"]),
                      "net_gain": fr(y["net_gain"]), "exempt_amount": fr(y["exempt_amount"]),
                      "taxable_gain": fr(y["taxable_gain"]), "gross_proceeds": fr(y["gross_proceeds"]),
                      "dividend_income": fr(y["dividend_income"]),
                      "dividend_tax_paid": fr(y["dividend_tax_paid"])})
    holdings = {h["ticker"]: (fr(h["quantity"]), fr(h["total_cost"])) for h in rep["holdings"]}
    return {"years": years, "holdings": holdings,
            "holdings_order": [h["ticker"] for h in rep["holdings"]]}


def merged_legs(legs):
    """Merge legs of one disposal sharing (rule, acquisition date); drop dust; canonical order."""
    acc = {}
    for l in legs:
        k = (l["rule"], l["acq"])
        a = acc.setdefault(k, {"rule": l["rule"], "acq": l["acq"], "qty": ZERO, "cost": ZERO, "gain": ZERO})
        a["qty"] += l["qty"]
        a["cost"] += l["cost"]
        a["gain"] += l.get("gain", ZERO)
    out = [a for a in acc.values() if abs(a["qty"]) >= DUST]
    order = {"SameDay": 0, "BedAndBreakfast": 1, "Section104": 2}
    out.sort(key=lambda a: (order[a["rule"]], a["acq"] or pdate("0001-01-01")))
    return out


def all_disposals(parsed):
    return [dd for y in parsed["years"] for dd in y["disposals"]]


def close(a: Fraction, b: Fraction, tol: Fraction, scale: Fraction = ZERO) -> bool:
    return abs(a - b) <= tol + Fraction(1, 10 ** 18) * abs(scale)


def brief(txs, limit=60):
    from ..gen.ledger import render_dsl
    lines = render_dsl(txs).splitlines()
    if len(lines) > limit:
        lines = lines[:limit] + [f"... ({len(lines) - limit} more lines)"]
    return lines


def has_kind(txs, *kinds):
    return any(t["kind"] in kinds for t in txs)


def split_trade_same_day(txs):
    """True if some security has a SPLIT/UNSPLIT and a BUY/SELL on one date (F15 shape)."""
    ev = defaultdict(set)
    tr = defaultdict(set)
    for t in txs:
        if t["kind"] in ("SPLIT", "UNSPLIT"):
            ev[t["ticker"]].add(t["date"])
        elif t["kind"] in ("BUY", "SELL"):
            tr[t["ticker"]].add(t["date"])
    return any(ev[k] & tr[k] for k in ev)


def nonterminating_split(txs):
    from ..util import is_terminating
    for t in txs:
        if t["kind"] in ("SPLIT", "UNSPLIT"):
            r = fr(t["ratio"])
            if not is_terminating(1 / r) or not is_terminating(r):
                return True
            # ratios like 3, 7, 0.3 -> 1/r non-terminating
    return False


def run_ledger_cases(cases, oracle, *, record=False, fx=None, sample_fn=None, max_samples=2,
                     nontrivial=None, case_extra=None):
    """cases: list of (txs, feats). oracle(txs, obs, cnt, sets, feats) -> [violation dicts]."""
    from collections import Counter
    from ..probe import probe
    from ..util import sha
    cnt = Counter()
    sets = {}
    viols = []
    hashes = set()
    samples = []
    reqs = []
    for txs, _ in cases:
        c = calc_case(txs, record=record, fx=fx)
        if case_extra:
            c.update(case_extra)
        reqs.append(c)
    obs = probe().run(reqs)
    for (txs, feats), o in zip(cases, obs):
        vs = oracle(txs, o, cnt, sets, feats)
        for f in feats:
            cnt["feat_" + f] += 1
        nt = nontrivial(txs, o) if nontrivial else (
            "ok" in o and any(y["disposals"] for y in o["ok"]["report"]["tax_years"]))
        if nt:
            hashes.add(sha(txs)[:16])
        for x in vs:
            x.setdefault("signature", x["clause"])
            x["case"] = {"op": "calc", "txs": txs}
            if fx is not None:
                x["case"]["fx"] = fx
            viols.append(x)
        if sample_fn and len(samples) < max_samples and not vs and len(txs) <= 12:
            s = sample_fn(txs, o)
            if s:
                samples.append(s)
    return {"evaluations": len(cases), "nontrivial_hashes": hashes, "counters": cnt,
            "violations": viols[:20], "samples": samples, "sets": {k: set(v) for k, v in sets.items()}}


def split_factor(days, d_from, d_to):
    """Multiplier taking a quantity in the units of date d_from to the units of date d_to (d_to >= d_from).
    A split dated s applies after the trades of s: included iff d_from <= s < d_to."""
    from ..util import ONE
    f = ONE
    for day in days:
        if day.date >= d_to:
            break
        if day.date >= d_from:
            for m in day.splits:
                f *= m
    return f
