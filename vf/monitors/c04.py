"""C04 - report arithmetic from legs to tax-year totals; exemption configuration."""
from __future__ import annotations

import json
from collections import Counter, defaultdict
from fractions import Fraction

from ..gen.ledger import Opts, gen_ledger, render_dsl
from ..model import hmrc, fx as fxm
from ..probe import probe
from ..util import cap_viols, rng_for, sha, fr, d as pdate, tax_year_of, ZERO, TOL_10DP, TOL_FINE, dstr, round_half_away
from . import ledger_core as lc

PROP = "C04"
CUR = ["USD", "EUR", "JPY", "CHF"]
CLASSES = {
    "mixed": dict(capital=True, splits=True, n_sec=(1, 4), steps=(4, 16), long_gaps_p=0.3),
    "manyyears": dict(capital=False, splits=False, n_sec=(1, 3), steps=(8, 20), long_gaps_p=0.6,
                      start=(pdate("2008-01-01"), pdate("2016-01-01"))),
    "fx": dict(capital=True, splits=True, n_sec=(1, 3), currencies=CUR, long_gaps_p=0.3,
               start=(pdate("2016-01-01"), pdate("2023-06-01")), last_date=pdate("2026-02-20")),
    "zeroresult": dict(capital=False, splits=False, n_sec=(1, 2), steps=(3, 8), fees_p=0.0, zero_price=False),
}


def plan(tier, seed):
    k = 32 if tier == "quick" else 400
    shards = [{"kind": "lib", "cls": c, "seed": seed, "shard": i, "n": 250} for c in CLASSES for i in range(k)]
    kc = 24 if tier == "quick" else 200
    shards += [{"kind": "cli", "seed": seed, "shard": i, "n": 20} for i in range(kc)]
    return shards


def zero_result_ledger(rng):
    """Buy and sell at the same net price -> disposal result exactly zero (must be in neither total)."""
    from ..util import iso
    import datetime as dt
    tk = rng.choice(["ZED", "NIL"])
    D = dt.date(rng.randint(2016, 2024), rng.randint(1, 12), rng.randint(1, 28))
    q = rng.choice([1, 10, 100, 250])
    p = Fraction(rng.randint(1, 50000), 100)
    txs = [{"date": iso(D), "ticker": tk, "kind": "BUY", "amount": str(q), "price": [dstr(p), "GBP"], "fees": ["0", "GBP"]},
           {"date": iso(D + dt.timedelta(days=rng.choice([0, 1, 40, 400]))), "ticker": tk, "kind": "SELL", "amount": str(q),
            "price": [dstr(p), "GBP"], "fees": ["0", "GBP"]}]
    other, _ = gen_ledger(rng, Opts(**CLASSES["zeroresult"]))
    other = [t for t in other if t["ticker"] != tk]
    return sorted(txs + other, key=lambda t: t["date"]), {"zero_result_template"}


def gen_config(rng, txs):
    """Explicit exemption map: random amounts; sometimes a year with disposals is left out."""
    years = sorted({tax_year_of(pdate(t["date"])) for t in txs})
    lo, hi = min(years) - 1, max(years) + 1
    amounts = {y: Fraction(rng.choice([0, 1, 3000, 6000, 12300, 11100, 100000]) + rng.randint(0, 99), 1) for y in range(lo, hi + 1)}
    missing = None
    if rng.random() < 0.25:
        missing = rng.choice(years)
        del amounts[missing]
    return {str(y): dstr(a) for y, a in amounts.items()}, missing


def check_report(txs, rep, to_gbp, exemptions, cnt, year_filter=None):
    """All identities of the statement on one produced report. exemptions: {year:int -> Fraction}."""
    v = []
    days, dividends, _ = hmrc.build_days(txs, to_gbp)
    dmap = {tk: {dy.date: dy for dy in ds} for tk, ds in days.items()}
    for y in rep["years"]:
        tg = tl = ZERO
        for dd in y["disposals"]:
            cnt["disposals"] += 1
            day = dmap.get(dd["ticker"], {}).get(dd["date"])
            if day is None or day.S == 0:
                v.append({"clause": "disposal-without-sale", "detail": f"{dd['ticker']} {dd['date']}"})
                continue
            if day.n_sells > 1:
                cnt["disposals_several_sell_lines"] += 1
            if not lc.close(dd["gross"], day.G, TOL_10DP, day.G):
                v.append({"clause": "gross-proceeds", "detail": f"{dd['ticker']} {dd['date']}: gross {float(dd['gross'])!r} != sum q*p {float(day.G)!r}"})
            if not lc.close(dd["net"], day.G - day.Fe, TOL_10DP, day.G):
                v.append({"clause": "net-proceeds", "detail": f"{dd['ticker']} {dd['date']}: net {float(dd['net'])!r} != gross - fees {float(day.G - day.Fe)!r}"})
            lq = sum((l["qty"] for l in dd["legs"]), ZERO)
            if not lc.close(dd["qty"], lq, TOL_FINE, lq):
                v.append({"clause": "quantity-vs-legs", "detail": f"{dd['ticker']} {dd['date']}: {dd['qty']} vs legs {lq}"})
            lg = sum((l["gain"] for l in dd["legs"]), ZERO)
            lcst = sum((l["cost"] for l in dd["legs"]), ZERO)
            if not lc.close(lg, dd["net"] - lcst, TOL_10DP, abs(dd["net"]) + abs(lcst)):
                v.append({"clause": "leg-gains-vs-net-minus-cost",
                          "detail": f"{dd['ticker']} {dd['date']}: sum leg gains {float(lg)!r} != net {float(dd['net'])!r} - costs {float(lcst)!r}"})
            if lg > 0:
                tg += lg
            elif lg < 0:
                tl += -lg
                cnt["loss_disposals"] += 1
            else:
                cnt["zero_result_disposals"] += 1
            if tax_year_of(dd["date"]) != y["start_year"]:
                v.append({"clause": "disposal-in-wrong-year", "detail": f"{dd['date']} listed under {y['period']}"})
        if not lc.close(y["total_gain"], tg, TOL_FINE, tg):
            v.append({"clause": "total-gain", "detail": f"{y['period']}: total_gain {float(y['total_gain'])!r} != sum of positive disposal results {float(tg)!r}"})
        if not lc.close(y["total_loss"], tl, TOL_FINE, tl):
            v.append({"clause": "total-loss", "detail": f"{y['period']}: total_loss {float(y['total_loss'])!r} != sum of negative disposal results {float(tl)!r}"})
        if not lc.close(y["net_gain"], y["total_gain"] - y["total_loss"], TOL_FINE, abs(y["total_gain"]) + abs(y["total_loss"])):
            v.append({"clause": "net-gain", "detail": f"{y['period']}: {y['net_gain']}"})
        if y["disposal_count"] != len(y["disposals"]):
            v.append({"clause": "disposal-count", "detail": f"{y['period']}: {y['disposal_count']} vs {len(y['disposals'])}"})
        inc, tax = dividends.get(y["start_year"], (ZERO, ZERO))
        if not lc.close(y["dividend_income"], inc, TOL_FINE * 1000, inc) or not lc.close(y["dividend_tax_paid"], tax, TOL_FINE * 1000, tax):
            v.append({"clause": "dividend-totals",
                      "detail": f"{y['period']}: income {float(y['dividend_income'])!r}/{float(inc)!r} tax {float(y['dividend_tax_paid'])!r}/{float(tax)!r}"})
        if inc:
            cnt["years_with_dividends"] += 1
        want_ex = exemptions.get(y["start_year"])
        if want_ex is None:
            v.append({"clause": "unconfigured-year-reported", "detail": f"{y['period']} reported with exemption {y['exempt_amount']} but the year is not configured"})
        elif y["exempt_amount"] != want_ex:
            v.append({"clause": "exemption", "detail": f"{y['period']}: {y['exempt_amount']} configured {want_ex}"})
        else:
            want_tax = max(ZERO, y["net_gain"] - want_ex)
            if not lc.close(y["taxable_gain"], want_tax, TOL_FINE, want_tax):
                v.append({"clause": "taxable-gain", "detail": f"{y['period']}: {y['taxable_gain']} expected {want_tax}"})
            if want_tax == 0 and y["net_gain"] > 0:
                cnt["years_gain_below_exemption"] += 1
        cnt["years_checked"] += 1
    cnt["reports_years_" + str(min(len(rep["years"]), 8))] += 1
    return v


_known = None


def known_codes():
    global _known
    if _known is None:
        _known = {c["code"] for c in probe().one({"op": "currencies"})["ok"]}
    return _known


def run_lib(desc):
    rng = rng_for(PROP, desc["seed"], desc["cls"], desc["shard"])
    opts = Opts(**CLASSES[desc["cls"]])
    is_fx = desc["cls"] == "fx"
    to_gbp = fxm.converter(fxm.Table(known_codes())) if is_fx else hmrc.gbp_identity
    cnt = Counter()
    viols = []
    hashes = set()
    samples = []
    cases = []
    for _ in range(desc["n"]):
        if desc["cls"] == "zeroresult" and rng.random() < 0.6:
            txs, feats = zero_result_ledger(rng)
        else:
            txs, feats = gen_ledger(rng, opts)
        cfg, missing = gen_config(rng, txs)
        years = sorted({tax_year_of(pdate(t["date"])) for t in txs})
        yf = rng.choice(years + [years[0] - 1, years[-1] + 1]) if rng.random() < 0.3 else None
        cases.append((txs, cfg, missing, yf))
    reqs = [lc.calc_case(t, exemptions=cfg, year=yf, fx="bundled" if is_fx else None, front=True) for t, cfg, _, yf in cases]
    obs = probe().run(reqs)
    for (txs, cfg, missing, yf), o in zip(cases, obs):
        ex = {int(k): fr(a) for k, a in cfg.items()}
        vs = []
        if "ok" in o:
            rep = lc.parse_report(o["ok"]["report"])
            try:
                vs = check_report(txs, rep, to_gbp, ex, cnt, yf)
            except fxm.MissingRate:
                cnt["model_missing_rate"] += 1
            if any(y["disposals"] for y in rep["years"]):
                hashes.add(sha([txs, cfg, yf])[:16])
            if yf is not None and yf not in ex:
                vs.append({"clause": "unconfigured-year-reported", "detail": f"--year {yf} not configured but a report was produced"})
        elif "err" in o:
            e = o["err"]
            if e["kind"] == "UnsupportedExemptionYear":
                cnt["unconfigured_year_errors"] += 1
                if e.get("year") in ex:
                    vs.append({"clause": "exemption-error-for-configured-year", "detail": e["message"]})
            else:
                cnt["other_errors"] += 1
                # an unconfigured year with disposals must not be masked silently: nothing to check here
        for x in vs:
            x.setdefault("signature", x["clause"])
            x["case"] = {"op": "calc", "txs": txs, "exemptions": cfg, "year": yf, "fx": "bundled" if is_fx else None}
            viols.append(x)
        if len(samples) < 2 and "ok" in o and not vs and len(txs) <= 10:
            samples.append({"ledger": lc.brief(txs), "exemptions": cfg, "year_filter": yf,
                            "years_seen": [(y["period"], y["total_gain"], y["total_loss"], y["exempt_amount"], y["taxable_gain"])
                                           for y in o["ok"]["report"]["tax_years"]]})
    return {"evaluations": len(cases), "nontrivial_hashes": hashes, "counters": cnt,
            "violations": cap_viols(viols), "samples": samples}


EMBEDDED = {2014: 11000, 2015: 11100, 2016: 11100, 2017: 11300, 2018: 11700, 2019: 12000, 2020: 12300,
            2021: 12300, 2022: 12300, 2023: 6000, 2024: 3000, 2025: 3000}


def judge_cli(txs, cw, hm, cnt, viols, hashes):
    """One real CLI run under generated config files. Returns the parsed JSON report or None."""
    from ..clidrv import Sandbox
    cw = {int(k): v for k, v in cw.items()}
    hm = {int(k): v for k, v in hm.items()}
    over = dict(cw)
    over.update(hm)
    embedded = EMBEDDED
    rep = None

    def toml(d):
        return "[exemptions]\n" + "".join(f'"{y}" = {a}\n' for y, a in d.items()) if d else None
    eff = dict(embedded)
    eff.update(over)
    model = hmrc.evaluate(txs)
    if model["uncovered"]:
        return rep
    disposal_years = sorted(model["years"])
    with Sandbox(toml(cw), toml(hm)) as sb:
        sb.write("in.cgt", render_dsl(txs))
        r = sb.run(["report", "in.cgt", "--format", "json"])
    cnt["cli_runs"] += 1
    hashes.add(sha([txs, sorted(cw.items()), sorted(hm.items())])[:16])
    if r["timeout"]:
        cnt["cli_timeouts(inconclusive)"] += 1
        return rep
    unconfigured = [y for y in disposal_years if y not in eff]
    case = {"op": "cli", "txs": txs, "cwd_cfg": cw, "home_cfg": hm}
    if unconfigured:
        cnt["cli_unconfigured_year_cases"] += 1
        if r["exit"] == 0:
            viols.append({"clause": "cli-unconfigured-year-reported", "signature": "cli-unconfigured-year-reported",
                          "detail": f"years {unconfigured} have disposals but no exemption; exit 0", "case": case})
        elif r["stdout"]:
            viols.append({"clause": "cli-partial-output", "signature": "cli-partial-output",
                          "detail": "stdout not empty on failure", "case": case})
        return rep
    if r["exit"] != 0:
        if "exceeds holding" in r["stderr"]:
            cnt["cli_residue_refusals(routed to C05)"] += 1
            return rep
        viols.append({"clause": "cli-configured-refused", "signature": "cli-configured-refused",
                      "detail": r["stderr"][:300], "case": case})
        return rep
    rep = json.loads(r["stdout"])
    if over:
        cnt["cli_override_files_applied"] += 1
    for y in rep["tax_years"]:
        sy = int(y["period"][:4])
        want = Fraction(eff[sy])
        if Fraction(y["exempt_amount"]) != want:
            viols.append({"clause": "cli-exemption", "signature": "cli-exemption",
                          "detail": f"{y['period']}: exempt_amount {y['exempt_amount']} but configuration says {want} "
                                    f"(cwd {cw}, home {hm})", "case": case})
        m = model["years"].get(sy)
        if m is None:
            viols.append({"clause": "cli-extra-year", "signature": "cli-extra-year", "detail": y["period"], "case": case})
            continue
        for key, mv in (("total_gain", m["total_gain"]), ("total_loss", m["total_loss"]), ("net_gain", m["net_gain"])):
            if Fraction(y[key]) != round_half_away(mv) and abs(Fraction(y[key]) - mv) > Fraction(1, 100):
                viols.append({"clause": "cli-" + key, "signature": "cli-" + key,
                              "detail": f"{y['period']}: {key} {y[key]} model {float(mv)!r}", "case": case})
        if y["disposal_count"] != m["count"]:
            viols.append({"clause": "cli-disposal-count", "signature": "cli-disposal-count",
                          "detail": f"{y['period']}: {y['disposal_count']} vs {m['count']}", "case": case})

    return rep


def run_cli(desc):
    """Real CLI with a generated ./config.toml and/or ~/.config/cgt-tool/config.toml (never both
    disagreeing on a year); exemption, totals and taxable gain are read back from --format json."""
    from ..clidrv import Sandbox
    rng = rng_for(PROP, desc["seed"], "cli", desc["shard"])
    cnt = Counter()
    viols = []
    hashes = set()
    samples = []
    embedded = {2014: 11000, 2015: 11100, 2016: 11100, 2017: 11300, 2018: 11700, 2019: 12000, 2020: 12300,
                2021: 12300, 2022: 12300, 2023: 6000, 2024: 3000, 2025: 3000}
    for _ in range(desc["n"]):
        txs, _f = gen_ledger(rng, Opts(capital=False, splits=False, n_sec=(1, 2), steps=(3, 9), long_gaps_p=0.5,
                                        start=(pdate("2010-06-01"), pdate("2024-01-01"))))
        years = sorted({tax_year_of(pdate(t["date"])) for t in txs})
        over = {}
        for y in years:
            k = rng.random()
            if k < 0.4:
                over[y] = rng.choice([0, 500, 5000, 99999])
        where = rng.choice(["cwd", "home", "split"])
        cw = {y: a for i, (y, a) in enumerate(sorted(over.items())) if where == "cwd" or (where == "split" and i % 2 == 0)}
        hm = {y: a for y, a in over.items() if y not in cw}

        rep = judge_cli(txs, cw, hm, cnt, viols, hashes)
        if rep is None:
            continue
        if len(samples) < 1 and over:
            samples.append({"cli": "report in.cgt --format json", "cwd_config": cw, "home_config": hm,
                            "years": [(y["period"], y["exempt_amount"]) for y in rep["tax_years"]]})
    return {"evaluations": cnt["cli_runs"], "nontrivial_hashes": hashes, "counters": cnt,
            "violations": cap_viols(viols), "samples": samples}


def run_shard(desc):
    return run_lib(desc) if desc["kind"] == "lib" else run_cli(desc)


def replay(case):
    if case.get("op") == "cli":
        vs = []
        rep = judge_cli(case["txs"], case.get("cwd_cfg") or {}, case.get("home_cfg") or {}, Counter(), vs, set())
        return vs, {"report_years": [(y["period"], y["exempt_amount"]) for y in (rep or {}).get("tax_years", [])]}
    is_fx = bool(case.get("fx"))
    to_gbp = fxm.converter(fxm.Table(known_codes())) if is_fx else hmrc.gbp_identity
    o = probe().one(lc.calc_case(case["txs"], exemptions=case["exemptions"], year=case.get("year"), fx=case.get("fx"), front=True))
    vs = []
    if "ok" in o:
        ex = {int(k): fr(a) for k, a in case["exemptions"].items()}
        vs = check_report(case["txs"], lc.parse_report(o["ok"]["report"]), to_gbp, ex, Counter(), case.get("year"))
        if case.get("year") is not None and case["year"] not in ex:
            vs.append({"clause": "unconfigured-year-reported", "detail": "year filter not configured"})
    for x in vs:
        x.setdefault("signature", x["clause"])
    return vs, o


THRESHOLDS = {"zero_result_disposals": 200, "unconfigured_year_errors": 200, "loss_disposals": 1000,
              "disposals_several_sell_lines": 300, "years_with_dividends": 300, "cli_override_files_applied": 30,
              "cli_unconfigured_year_cases": 10, "years_gain_below_exemption": 100}
RULE = ("seeded ledgers (mixed gains/losses, zero-result disposals, several sell lines per day, FX, up to 15+ tax "
        "years) x generated exemption maps (random amounts, sometimes omitting a year with disposals) x optional year "
        "filter, at the library boundary; plus real CLI runs with generated ./config.toml and ~/.config override "
        "files; every identity of the statement is evaluated on every produced report; distinct by (ledger, config)")
