"""C13 - layout, comments, keyword case and line endings never change what is parsed; corrupt text is
rejected with an error that identifies the offending line."""
from __future__ import annotations

import itertools
import json
import re
import random
from collections import Counter

from ..gen.ledger import Opts, gen_ledger
from ..model import dsl
from ..probe import probe
from ..util import cap_viols, rng_for, sha
from . import ledger_core as lc

PROP = "C13"


def plan(tier, seed):
    shards = [{"kind": "enum", "part": i, "parts": 8} for i in range(8)]
    k = 96 if tier == "quick" else 800
    shards += [{"kind": "variants", "seed": seed, "shard": i, "n": 250} for i in range(k)]
    shards += [{"kind": "corrupt", "seed": seed, "shard": i, "n": 400} for i in range(k)]
    shards += [{"kind": "mcp", "seed": seed, "shard": i, "n": 40} for i in range(8 if tier == "quick" else 100)]
    shards += [{"kind": "cli", "seed": seed, "shard": i, "n": 25} for i in range(16 if tier == "quick" else 200)]
    return shards


def gen_txs(rng, n=None):
    opts = Opts(capital=True, splits=True, dividends=True, n_sec=(1, 3), steps=(2, 8),
                currencies=rng.sample(["USD", "EUR", "JPY", "CHF", "AUD", "BHD", "KWD", "SEK"], 3))
    txs, _ = gen_ledger(rng, opts)
    return txs


SAMPLES = {
    "BUY": {"date": "2024-01-15", "ticker": "AB1", "kind": "BUY", "amount": "100", "price": ["150.25", "USD"], "fees": ["10", "USD"]},
    "SELL": {"date": "2024-02-29", "ticker": "AB1", "kind": "SELL", "amount": "0.5", "price": ["7", "GBP"], "fees": ["1.5", "GBP"]},
    "DIVIDEND": {"date": "2024-03-01", "ticker": "AB1", "kind": "DIVIDEND", "total": ["12.34", "EUR"], "tax": ["1.2", "EUR"]},
    "ACCUMULATION": {"date": "2024-04-05", "ticker": "AB1", "kind": "ACCUMULATION", "amount": "10", "total": ["5", "GBP"], "tax": ["0.5", "GBP"]},
    "CAPRETURN": {"date": "2024-04-06", "ticker": "AB1", "kind": "CAPRETURN", "amount": "10", "total": ["5", "GBP"], "fees": ["0.1", "USD"]},
    "SPLIT": {"date": "2024-05-01", "ticker": "AB1", "kind": "SPLIT", "ratio": "2"},
    "UNSPLIT": {"date": "2024-05-02", "ticker": "AB1", "kind": "UNSPLIT", "ratio": "1.5"},
}


def enum_cases():
    """Single-transaction files: command x optional clause (non-zero / zero written / zero omitted) x main currency
    (foreign / GBP written / GBP omitted) x trailing comment x line ending x final newline x case x spacing."""
    out = []
    for kind, base in SAMPLES.items():
        opt_field = {"BUY": "fees", "SELL": "fees", "DIVIDEND": "tax", "ACCUMULATION": "tax", "CAPRETURN": "fees"}.get(kind)
        main_field = {"BUY": "price", "SELL": "price", "DIVIDEND": "total", "ACCUMULATION": "total", "CAPRETURN": "total"}.get(kind)
        for clause, cur, comment, eol, final, case, wide in itertools.product(
                ("nonzero", "zero_written", "zero_omitted") if opt_field else ("na",),
                ("foreign", "gbp_written", "gbp_omitted") if main_field else ("na",),
                (False, True), ("\n", "\r\n", "\r"), (True, False), ("upper", "lower", "mixed"), (False, True)):
            t = json.loads(json.dumps(base))
            if opt_field and clause != "nonzero":
                t[opt_field] = ["0", "GBP"]
            if main_field:
                t[main_field][1] = "USD" if cur == "foreign" else "GBP"
            out.append((t, dict(clause=clause, cur=cur, comment=comment, eol=eol, final=final, case=case, wide=wide)))
    return out


def render_enum(t, o, idx):
    rng = random.Random(idx)
    st = dsl.Style(rng, plain=True)
    st.kw_case = st.cur_case = st.tk_case = o["case"]
    st.eol = o["eol"]
    st.final_newline = o["final"]
    st.trailing_comment_p = 1.0 if o["comment"] else 0
    st.wide_ws_p = 1.0 if o["wide"] else 0
    st.omit_gbp_p = 1.0 if o["cur"] == "gbp_omitted" else 0
    st.omit_zero_clause_p = 1.0 if o["clause"] == "zero_omitted" else 0
    return dsl.render(rng, [t], style=st)


def compare(expected, got):
    """-> list of differences between expected transactions and the parsed list."""
    diffs = []
    if len(expected) != len(got):
        return [f"{len(got)} transactions parsed, {len(expected)} expected"]
    for i, (e, g) in enumerate(zip(expected, got)):
        for k in set(e) | set(g):
            ev, gv = e.get(k), g.get(k)
            if k in ("fees", "tax") and ev and gv and float(ev[0]) == 0 and float(gv[0]) == 0:
                continue
            if ev != gv:
                diffs.append(f"tx {i + 1} {k}: parsed {gv} expected {ev}")
    return diffs


def run_enum(desc):
    cases = [c for i, c in enumerate(enum_cases()) if i % desc["parts"] == desc["part"]]
    cnt = Counter()
    viols = []
    hashes = set()
    reqs = []
    meta = []
    for i, (t, o) in enumerate(cases):
        text, exp, line_of, _tl, pl = render_enum(t, o, i)
        reqs.append({"op": "parse", "text": text})
        meta.append((text, exp, o, pl, t["kind"]))
    obs = probe().run(reqs)
    for (text, exp, o, pl, kind), ob in zip(meta, obs):
        cnt["enumerated_single_line_files"] += 1
        hashes.add(sha(text)[:16])
        for p in pl:
            cnt["placement_" + p] += 1
        case = {"op": "parse", "text": text}
        if "ok" not in ob:
            last_tok = "number" if any(p.startswith("trailing_comment_after_number") for p in pl) else "word"
            sig = "valid-variant-rejected"
            if o["comment"]:
                sig += ":trailing-comment-after-" + last_tok
            viols.append({"clause": "valid-variant-rejected", "signature": sig,
                          "detail": f"{kind} {o}: {repr(text)[:120]} -> {ob.get('err', {}).get('message', str(ob))[:200]}", "case": case})
            continue
        d = compare(exp, ob["ok"])
        if d:
            viols.append({"clause": "variant-parsed-differently", "signature": "variant-parsed-differently",
                          "detail": f"{repr(text)[:120]}: {d[:3]}", "case": case})
    return {"evaluations": len(cases), "nontrivial_hashes": hashes, "counters": cnt, "violations": cap_viols(viols),
            "samples": [{"text": meta[0][0], "expected": meta[0][1]}] if meta else []}


def run_variants(desc):
    rng = rng_for(PROP, desc["seed"], "variants", desc["shard"])
    cnt = Counter()
    viols = []
    hashes = set()
    samples = []
    reqs = []
    meta = []
    for _ in range(desc["n"]):
        txs = gen_txs(rng)
        text, exp, line_of, _tl, pl = dsl.render(rng, txs)
        reqs.append({"op": "parse", "text": text})
        meta.append((text, exp, pl))
    obs = probe().run(reqs)
    for (text, exp, pl), ob in zip(meta, obs):
        cnt["variant_files"] += 1
        cnt["variant_lines"] += len(exp)
        for p in pl:
            cnt["placement_" + p.split(":")[0]] += 1
        hashes.add(sha(text)[:16])
        case = {"op": "parse", "text": text}
        if "ok" not in ob:
            tc = sorted(p for p in pl if p.startswith("trailing_comment_after"))
            sig = "valid-variant-rejected" + (":trailing-comment-after-number" if any("number" in p for p in tc) else
                                              (":trailing-comment-after-word" if tc else ""))
            viols.append({"clause": "valid-variant-rejected", "signature": sig,
                          "detail": f"{ob.get('err', {}).get('message', str(ob))[:300]}", "case": case})
            continue
        d = compare(exp, ob["ok"])
        if d:
            viols.append({"clause": "variant-parsed-differently", "signature": "variant-parsed-differently",
                          "detail": "; ".join(d[:3]), "case": case})
        elif len(samples) < 2 and len(exp) <= 4:
            samples.append({"text": text, "parsed_transactions": len(ob["ok"])})
    return {"evaluations": len(reqs), "nontrivial_hashes": hashes, "counters": cnt, "violations": cap_viols(viols), "samples": samples}


_invalid = None


def invalid_codes():
    global _invalid
    if _invalid is None:
        known = {c["code"] for c in probe().one({"op": "currencies"})["ok"]}
        _invalid = [c for c in ("ZZZ", "QQQ", "ABC", "XYY", "GBX", "UKP", "EUO", "AAA") if c not in known]
    return _invalid


def run_corrupt(desc):
    rng = rng_for(PROP, desc["seed"], "corrupt", desc["shard"])
    cnt = Counter()
    viols = []
    hashes = set()
    samples = []
    reqs = []
    meta = []
    inv = invalid_codes()
    for _ in range(desc["n"]):
        txs = gen_txs(rng)[:rng.randint(1, 6)]
        c = dsl.corrupt(rng, txs, inv)
        if c is None:
            continue
        text, line, desc_ = c
        reqs.append({"op": "parse", "text": text})
        meta.append((text, line, desc_))
    obs = probe().run(reqs)
    for (text, line, d), ob in zip(meta, obs):
        cnt["corruptions"] += 1
        cnt["corruption_" + d.split(":")[0]] += 1
        hashes.add(sha(text)[:16])
        case = {"op": "parse", "text": text, "corrupted_line": line, "corruption": d}
        if "ok" in ob:
            viols.append({"clause": "corrupt-text-accepted", "signature": "corrupt-text-accepted:" + d.split(":")[0],
                          "detail": f"line {line} ({d}): {text.splitlines()[line - 1]!r} accepted as {len(ob['ok'])} transactions",
                          "case": case})
            continue
        if "panic" in ob:
            viols.append({"clause": "parser-panic", "signature": "parser-panic", "detail": str(ob["panic"])[:200], "case": case})
            continue
        e = ob["err"]
        if e.get("line") != line:
            viols.append({"clause": "error-names-wrong-line", "signature": "error-names-wrong-line:" + d.split(":")[0],
                          "detail": f"corrupted line {line} ({d}: {text.splitlines()[line - 1]!r}) but error points at line {e.get('line')}",
                          "case": case})
        elif f"{line}:" not in e["message"] and f"--> {line}" not in e["message"]:
            viols.append({"clause": "error-message-lacks-line", "signature": "error-message-lacks-line",
                          "detail": e["message"][:200], "case": case})
        elif len(samples) < 2:
            samples.append({"corruption": d, "line": line, "text": text, "error": e["message"][:200]})
    return {"evaluations": len(reqs), "nontrivial_hashes": hashes, "counters": cnt, "violations": cap_viols(viols), "samples": samples}


def run_multi(parts):
    from ..clidrv import Sandbox
    with Sandbox() as sb:
        names = []
        for i, p_ in enumerate(parts):
            sb.write(f"p{i}.cgt", p_.encode())
            names.append(f"p{i}.cgt")
        return sb.run(["parse"] + names)


def judge_multi(r, exp):
    """exp: list of dicts (date/ticker/kind) or triples."""
    want = [(e["date"], e["ticker"], e["kind"]) if isinstance(e, dict) else tuple(e) for e in exp]
    if r["exit"] != 0:
        return [{"clause": "valid-files-rejected", "signature": "multi-file:valid-files-rejected",
                 "detail": "cli (several input files): " + r["stderr"][:200]}]
    got = [(g["date"], g["ticker"], g["action"]) for g in json.loads(r["stdout"])]
    if got != want:
        return [{"clause": "cli-parse-differs", "signature": "multi-file:cli-parse-differs",
                 "detail": f"several input files: {len(got)} transactions read, {len(want)} written"}]
    return []


def run_cli(desc):
    """`cgt-tool parse` on variants: JSON output equals the expected list; corrupt file: exit != 0, no stdout."""
    from ..clidrv import Sandbox
    rng = rng_for(PROP, desc["seed"], "cli", desc["shard"])
    cnt = Counter()
    viols = []
    hashes = set()
    for _ in range(desc["n"]):
        txs = gen_txs(rng)[:8]
        text, exp, line_of, _tl, pl = dsl.render(rng, txs)
        with Sandbox() as sb:
            sb.write("v.cgt", text.encode())
            r = sb.run(["parse", "v.cgt"])
            c = dsl.corrupt(rng, txs, invalid_codes())
            r2 = None
            if c:
                sb.write("c.cgt", c[0].encode())
                r2 = sb.run(["parse", "c.cgt"])
        cnt["cli_parse_runs"] += 1
        hashes.add(sha(text)[:16])
        case = {"op": "parse", "text": text}
        if r["exit"] != 0:
            tc = [p for p in pl if p.startswith("trailing_comment_after")]
            sig = "valid-variant-rejected" + (":trailing-comment-after-number" if any("number" in p for p in tc) else
                                              (":trailing-comment-after-word" if tc else ""))
            viols.append({"clause": "valid-variant-rejected", "signature": sig, "detail": "cli: " + r["stderr"][:200], "case": case})
        else:
            got = json.loads(r["stdout"])
            if len(got) != len(exp) or any(g["ticker"] != e["ticker"] or g["date"] != e["date"] or g["action"] != e["kind"]
                                           for g, e in zip(got, exp)):
                viols.append({"clause": "cli-parse-differs", "signature": "cli-parse-differs",
                              "detail": f"{len(got)} vs {len(exp)} transactions", "case": case})
        # the same text cut at line boundaries into several input files; a non-final file may lack its final newline
        cuts = [m.end() for m in re.finditer(r"\r\n|\r|\n", text)]
        if len(cuts) >= 2:
            ks = sorted(rng.sample(cuts[:-1] if cuts[-1] == len(text) and len(cuts) > 2 else cuts, rng.choice([1, 2]) if len(cuts) > 3 else 1))
            parts, prev = [], 0
            for k_ in ks + [len(text)]:
                parts.append(text[prev:k_])
                prev = k_
            stripped = 0
            for i_ in range(len(parts) - 1):
                if rng.random() < 0.6:
                    t_ = re.sub(r"(\r\n|\r|\n)$", "", parts[i_])
                    stripped += t_ != parts[i_]
                    parts[i_] = t_
            rm = run_multi(parts)
            cnt["cli_multi_file_runs"] += 1
            cnt["cli_multi_file_nonfinal_without_final_newline"] += 1 if stripped else 0
            vm = judge_multi(rm, exp)
            for x in vm:
                x["case"] = {"op": "parse_multi", "parts": parts, "expected": [[e["date"], e["ticker"], e["kind"]] for e in exp]}
            viols += vm
        if r2 is not None:
            cnt["cli_corrupt_runs"] += 1
            if r2["exit"] == 0 or r2["stdout"]:
                viols.append({"clause": "cli-corrupt-accepted", "signature": "cli-corrupt-accepted",
                              "detail": f"exit {r2['exit']} stdout {len(r2['stdout'])} bytes for {c[2]}", "case": {"op": "parse", "text": c[0]}})
    return {"evaluations": cnt["cli_parse_runs"] + cnt["cli_corrupt_runs"], "nontrivial_hashes": hashes, "counters": cnt,
            "violations": cap_viols(viols), "samples": []}


def exec_mcp_parse(texts_and_expected):
    """One `cgt-tool mcp` session: parse_transactions on each text; returns (violations, answered)."""
    from ..mcpdrv import Session, call, check_history
    sess = Session()
    reqs = [call(f"p{i}", "parse_transactions", {"transactions": t}) for i, (t, _e) in enumerate(texts_and_expected)]
    sess.send(reqs)
    sess.wait_for([r["id"] for r in reqs], 60)
    end = sess.finish()
    hv, _st, resp = check_history(sess, end)
    viols = []
    answered = 0
    for i, (text, exp) in enumerate(texts_and_expected):
        a = resp.get(Session.idkey(f"p{i}"))
        case = {"op": "mcp_parse", "text": text, "expected": [[e["date"], e["ticker"], e["kind"]] if isinstance(e, dict) else list(e) for e in exp]}
        if a is None:
            viols.append({"clause": "mcp-request-never-answered", "signature": "mcp:request-never-answered", "detail": f"p{i}", "case": case})
            continue
        answered += 1
        try:
            body = json.loads(a["result"]["content"][0]["text"])
            got = [(g["date"], g["ticker"], g["action"]) for g in (body["transactions"] if isinstance(body, dict) else body)]
        except Exception:
            viols.append({"clause": "valid-variant-rejected", "signature": "mcp:valid-variant-rejected",
                          "detail": json.dumps(a.get("error") or a.get("result"))[:240], "case": case})
            continue
        want = [tuple(x) for x in case["expected"]]
        if got != want:
            viols.append({"clause": "mcp-parse-differs", "signature": "mcp:parse-differs",
                          "detail": f"{len(got)} transactions read, {len(want)} written", "case": case})
    return viols, answered


def run_mcp(desc):
    """The same lexical variants through the MCP tool parse_transactions (the text travels inside a JSON string)."""
    rng = rng_for(PROP, desc["seed"], "mcp", desc["shard"])
    cnt, viols, hashes = Counter(), [], set()
    batch = []
    for _ in range(desc["n"]):
        txs = gen_txs(rng)[:8]
        text, exp, _line_of, _tl, pl = dsl.render(rng, txs)
        if text.lstrip().startswith("["):
            continue
        batch.append((text, exp))
        hashes.add(sha(text)[:16])
        if "\\n" in text or "\\r" in text:
            cnt["mcp_texts_with_backslash_escape_lookalikes_in_comments"] += 1
    vs, answered = exec_mcp_parse(batch)
    cnt["mcp_parse_answers"] += answered
    viols += vs
    return {"evaluations": len(batch), "nontrivial_hashes": hashes, "counters": cnt, "violations": cap_viols(viols), "samples": []}


def run_shard(desc):
    return {"enum": run_enum, "variants": run_variants, "corrupt": run_corrupt, "cli": run_cli, "mcp": run_mcp}[desc["kind"]](desc)


def replay(case):
    if case.get("op") == "mcp_parse":
        vs, answered = exec_mcp_parse([(case["text"], case["expected"])])
        return vs, {"answered": answered}
    if case.get("op") == "parse_multi":
        r = run_multi(case["parts"])
        return judge_multi(r, case["expected"]), {"exit": r["exit"], "stderr": r["stderr"][:300], "stdout": r["stdout"][:600]}
    o = probe().one({"op": "parse", "text": case["text"]})
    vs = []
    if "corrupted_line" in case:
        if "ok" in o:
            vs.append({"clause": "corrupt-text-accepted", "signature": "corrupt-text-accepted:" + case["corruption"].split(":")[0], "detail": "accepted"})
        elif o.get("err", {}).get("line") != case["corrupted_line"]:
            vs.append({"clause": "error-names-wrong-line", "signature": "error-names-wrong-line:" + case["corruption"].split(":")[0],
                       "detail": str(o.get("err"))[:200]})
    elif "ok" not in o:
        vs.append({"clause": "valid-variant-rejected", "signature": "valid-variant-rejected", "detail": str(o.get("err"))[:300]})
    return vs, o


def finalize(total, tier, seed):
    total.setdefault("extra_coverage", {})["exhaustive_subspaces"] = [
        "single-transaction files: 7 commands x optional clause {non-zero, zero written, omitted} x main currency "
        "{foreign, GBP written, GBP omitted} x trailing comment x {LF, CRLF, CR} x final newline x keyword/currency/"
        "ticker case {upper, lower, mixed} x spacing {single, wide}"]


THRESHOLDS = {"mcp_parse_answers": 200, "mcp_texts_with_backslash_escape_lookalikes_in_comments": 20, "cli_multi_file_nonfinal_without_final_newline": 150, "enumerated_single_line_files": 3384, "variant_files": 2500, "corruptions": 4000,
              "placement_CR": 300, "placement_CRLF": 300, "placement_no_final_newline": 500,
              "placement_trailing_comment_after_number": 300, "placement_trailing_comment_after_word": 300,
              "corruption_delete_required": 200, "corruption_currency_garbage": 100, "corruption_date_calendar": 200}
RULE = ("(a) complete enumeration of single-transaction files over the lexical variations the statement names, (b) "
        "seeded multi-line files of all seven kinds rendered with random combinations of those variations by an "
        "independent renderer that knows the expected list, (c) one-token corruptions invalid under any reading of the "
        "documented format, (d) through the real `cgt-tool parse`: the same files whole and cut at line boundaries into "
        "several input files whose non-final parts may lack the final newline; distinct by text hash")
