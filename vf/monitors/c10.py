"""C10 - splits only rescale share counts (metamorphic twins)."""
from __future__ import annotations

import copy
import datetime as dt
from collections import Counter, defaultdict
from fractions import Fraction

from ..gen.ledger import Opts, gen_ledger
from ..model import hmrc
from ..probe import probe
from ..util import cap_viols, rng_for, sha, fr, dstr, iso, d as pdate, is_terminating, ZERO, ONE, TOL_10DP, TOL_FINE
from . import ledger_core as lc

PROP = "C10"
EXACT_RATIOS = ["2", "4", "5", "10", "2.5", "0.5", "1.25", "20", "8", "0.2"]   # r and 1/r both terminating


def plan(tier, seed):
    k = 64 if tier == "quick" else 600
    shards = [{"kind": "twin", "cls": c, "seed": seed, "shard": i, "n": 150} for c in ("exact", "rounded") for i in range(k)]
    shards += [{"kind": "twin", "cls": "split_on_trade_date", "seed": seed, "shard": i, "n": 150} for i in range(k // 2)]
    shards += [{"kind": "pair", "seed": seed, "shard": i, "n": 150} for i in range(k)]
    return shards


def rescale_to_final_units(txs, digits=None, same_day=None):
    """Twin ledger in which every split/unsplit line is removed and every earlier quantity of that
    security is multiplied by the later multipliers (unit prices divided).  digits=None -> exact
    (raises ValueError if not a terminating decimal); otherwise buys round up, sells down."""
    mult = defaultdict(lambda: ONE)
    out = []
    order = sorted(range(len(txs)), key=lambda i: txs[i]["date"], reverse=True)
    if same_day is not None:
        # a reading of "a split on a trade date": "pre" = that date's other lines are in pre-split units (the split
        # takes effect after them), "post" = they are already in post-split units. Walking backwards in time, "pre"
        # meets the date's split lines first, "post" meets them last.
        is_split = lambda i: txs[i]["kind"] in ("SPLIT", "UNSPLIT")
        order = sorted(range(len(txs)), key=lambda i: (txs[i]["date"], is_split(i) if same_day == "pre" else not is_split(i)),
                       reverse=True)
    factor_at = {}
    for i in order:
        t = txs[i]
        tk = t["ticker"]
        if t["kind"] == "SPLIT":
            mult[tk] *= fr(t["ratio"])
            factor_at[i] = None
        elif t["kind"] == "UNSPLIT":
            mult[tk] /= fr(t["ratio"])
            factor_at[i] = None
        else:
            factor_at[i] = mult[tk]
    scale = {}
    for i, t in enumerate(txs):
        f = factor_at[i]
        if f is None:
            continue
        n = copy.deepcopy(t)
        if t["kind"] in ("BUY", "SELL"):
            q, p = fr(t["amount"]) * f, fr(t["price"][0]) / f
            if digits is None:
                n["amount"], n["price"][0] = dstr(q), dstr(p)
            else:
                u = Fraction(10) ** digits
                qq = q * u
                qn = qq.numerator // qq.denominator
                if t["kind"] == "BUY" and Fraction(qn) != qq:
                    qn += 1
                q2 = Fraction(qn) / u
                if q2 <= 0:
                    raise ValueError("zero quantity")
                # keep consideration: p2 = q*p/q2 rounded to 24 digits
                pp = (fr(t["amount"]) * fr(t["price"][0]) / q2) * Fraction(10) ** 20
                p2 = Fraction(pp.numerator // pp.denominator) / Fraction(10) ** 20
                n["amount"], n["price"][0] = dstr(q2), dstr(p2)
            scale[(t["ticker"], t["date"])] = f
        elif t["kind"] in ("CAPRETURN", "ACCUMULATION"):
            q = fr(t["amount"]) * f
            try:
                n["amount"] = dstr(q)
            except ValueError:
                n["amount"] = dstr(Fraction(int(q * 10 ** 6) + 1, 10 ** 6))
        out.append(n)
    return out, scale


def compare_twin(base, twin, scale, oa, ob, exactish, cnt):
    v = []
    if "panic" in oa or "panic" in ob:
        cnt["panic(routed to C15)"] += 1
        return v
    if ("ok" in oa) != ("ok" in ob):
        ea, eb = oa.get("err", {}).get("message", "accepted"), ob.get("err", {}).get("message", "accepted")
        msg = ea + eb
        if not exactish and "exceeds holding" not in msg:
            # the 18-dp rounded twin holds/lacks ~1e-18 of a share; accept/reject of capital events on such
            # dust is an artefact of the twin, not of the tool
            cnt["rounded_twin_acceptance_artefacts(skipped)"] += 1
            return v
        residue = (not exactish) or lc.nonterminating_split(base)
        sig = "acceptance-differs"
        if residue and "exceeds holding" in msg:
            from .c05 import residue_excuse
            refused, emsg = (base, ea) if "exceeds holding" in ea else (twin, eb)
            sig += ":decimal-residue:" + residue_excuse(refused, emsg)
        v.append({"clause": "acceptance-differs", "signature": sig,
                  "detail": f"with split lines: {ea[:150]} | rewritten in post-split units: {eb[:150]}"})
        return v
    if "ok" not in oa:
        cnt["both_rejected"] += 1
        return v
    A, B = lc.parse_report(oa["ok"]["report"]), lc.parse_report(ob["ok"]["report"])
    tol_m = TOL_10DP if exactish else Fraction(1, 10 ** 7)
    diffs = []
    ya, yb = {y["start_year"]: y for y in A["years"]}, {y["start_year"]: y for y in B["years"]}
    if list(ya) != list(yb):
        diffs.append(f"tax years {list(ya)} vs {list(yb)}")
    for sy in set(ya) & set(yb):
        a, b = ya[sy], yb[sy]
        da = {(d["date"], d["ticker"]): d for d in a["disposals"]}
        db = {(d["date"], d["ticker"]): d for d in b["disposals"]}
        if list(da) != list(db):
            diffs.append(f"{sy}: disposal lists differ")
            continue
        for k in da:
            x, y = da[k], db[k]
            cnt["disposals_compared"] += 1
            f = scale.get((k[1], iso(k[0])), ONE)
            if f != 1:
                cnt["disposals_in_rescaled_units"] += 1
            rel = abs(y["qty"]) * (Fraction(1, 10 ** 12) if not exactish else 0)
            if abs(x["qty"] * f - y["qty"]) > TOL_FINE * 1000 + rel + Fraction(1, 10 ** 18) * abs(y["qty"]):
                diffs.append(f"{k[1]} {k[0]}: quantity {float(x['qty'])!r} x {f} != {float(y['qty'])!r}")
            sc = abs(y["gross"]) + abs(y["net"]) + 1
            for fld in ("gross", "net"):
                if abs(x[fld] - y[fld]) > tol_m * (1 if exactish else sc):
                    diffs.append(f"{k[1]} {k[0]}: {fld} {float(x[fld])!r} vs {float(y[fld])!r}")
            mx, my = lc.merged_legs(x["legs"]), lc.merged_legs(y["legs"])
            if not exactish:
                thr = Fraction(1, 10 ** 9) * (abs(y["qty"]) + 1)
                mx = [l for l in mx if l["qty"] * f > thr]
                my = [l for l in my if l["qty"] > thr]
            if [(l["rule"], l["acq"]) for l in mx] != [(l["rule"], l["acq"]) for l in my]:
                diffs.append(f"{k[1]} {k[0]}: legs {[(l['rule'], str(l['acq']), float(l['qty'])) for l in mx]} vs "
                             f"{[(l['rule'], str(l['acq']), float(l['qty'])) for l in my]}")
                continue
            for l1, l2 in zip(mx, my):
                csc = abs(l2["cost"]) + 1
                if abs(l1["cost"] - l2["cost"]) > (TOL_FINE * 10 ** 6 + Fraction(1, 10 ** 15) * csc if exactish else tol_m * csc):
                    diffs.append(f"{k[1]} {k[0]} {l1['rule']} {l1['acq']}: cost {float(l1['cost'])!r} vs {float(l2['cost'])!r}")
                if abs(l1["qty"] * f - l2["qty"]) > TOL_FINE * 1000 + (Fraction(1, 10 ** 9) * (abs(l2["qty"]) + 1) if not exactish else Fraction(1, 10 ** 18) * abs(l2["qty"])):
                    diffs.append(f"{k[1]} {k[0]} {l1['rule']}: leg quantity {float(l1['qty'])!r} x {f} vs {float(l2['qty'])!r}")
            ga = sum((l["gain"] for l in x["legs"]), ZERO)
            gb = sum((l["gain"] for l in y["legs"]), ZERO)
            if abs(ga - gb) > tol_m * (1 if exactish else sc + abs(gb)):
                diffs.append(f"{k[1]} {k[0]}: result {float(ga)!r} vs {float(gb)!r}")
        for fld in ("total_gain", "total_loss"):
            s = abs(b["total_gain"]) + abs(b["total_loss"]) + 1
            if abs(a[fld] - b[fld]) > tol_m * (10 if exactish else s):
                diffs.append(f"{sy}: {fld} {float(a[fld])!r} vs {float(b[fld])!r}")
    for tk in set(A["holdings"]) | set(B["holdings"]):
        ha, hb = A["holdings"].get(tk, (ZERO, ZERO)), B["holdings"].get(tk, (ZERO, ZERO))
        s = abs(hb[1]) + 1
        if abs(ha[1] - hb[1]) > (TOL_FINE * 10 ** 6 + Fraction(1, 10 ** 15) * s if exactish else tol_m * s):
            diffs.append(f"holding {tk}: closing cost {float(ha[1])!r} vs {float(hb[1])!r}")
        if abs(ha[0] - hb[0]) > TOL_FINE * 10 ** 4 + Fraction(1, 10 ** 9 if not exactish else 10 ** 18) * (abs(hb[0]) + 1):
            diffs.append(f"holding {tk}: quantity {float(ha[0])!r} vs {float(hb[0])!r} (final units)")
    if diffs:
        v.append({"clause": "twin-differs", "signature": "twin-differs", "detail": "; ".join(diffs[:4])})
    return v


def placements(txs, cnt):
    """Where splits sit relative to sales, windows and capital events (coverage only)."""
    by = defaultdict(list)
    for t in txs:
        by[t["ticker"]].append(t)
    for tk, ts in by.items():
        ts = sorted(ts, key=lambda t: t["date"])
        for i, t in enumerate(ts):
            if t["kind"] not in ("SPLIT", "UNSPLIT"):
                continue
            s = pdate(t["date"])
            sells_before = [pdate(x["date"]) for x in ts[:i] if x["kind"] == "SELL"]
            buys_after = [pdate(x["date"]) for x in ts[i + 1:] if x["kind"] == "BUY"]
            if any((s - d0).days <= 30 for d0 in sells_before) and any(
                    (b - d0).days <= 30 and b > s for d0 in sells_before for b in buys_after):
                cnt["split_inside_30day_window"] += 1
            if any(x["kind"] in ("CAPRETURN", "ACCUMULATION") for x in ts[:i]):
                cnt["split_after_capital_event"] += 1
            if any(x["kind"] in ("CAPRETURN", "ACCUMULATION") for x in ts[i + 1:]):
                cnt["split_before_capital_event"] += 1
            if any(x["kind"] == "SELL" for x in ts[i + 1:]):
                cnt["split_before_sale"] += 1


def event_on_zero_holding(txs):
    """A capital event dated while exactly zero shares are held: the 18-dp rounded twin holds dust there,
    so whether the event applies differs for a reason that is the twin's, not the tool's."""
    days, _, cap = hmrc.build_days(txs)
    for tk, evs in cap.items():
        for (date, _k, _n, _q) in evs:
            pos = ZERO
            for dy in days.get(tk, []):
                if dy.date >= date:
                    break
                pos += dy.A - dy.S
                for m in dy.splits:
                    pos *= m
            if pos == 0:
                return True
    return False


def run_twin(desc):
    rng = rng_for(PROP, desc["seed"], desc["cls"], desc["shard"])
    exactish = desc["cls"] in ("exact", "split_on_trade_date")
    if desc["cls"] == "split_on_trade_date":
        return run_twin_split_day(desc)
    cnt = Counter()
    viols = []
    hashes = set()
    samples = []
    reqs = []
    meta = []
    import vf.gen.ledger as G
    for _ in range(desc["n"]):
        opts = Opts(capital=rng.random() < 0.5, splits=True, nonterm_splits=not exactish, n_sec=(1, 2),
                    steps=(4, 12), templates_p=0.45, qty_dp=3 if exactish else 6, price_dp=4 if exactish else 6)
        if exactish:
            saved = G.SPLIT_RATIOS_TERM
            G.SPLIT_RATIOS_TERM = EXACT_RATIOS
        try:
            base, _f = gen_ledger(rng, opts)
        finally:
            if exactish:
                G.SPLIT_RATIOS_TERM = saved
        if not lc.has_kind(base, "SPLIT", "UNSPLIT"):
            continue
        try:
            twin, scale = rescale_to_final_units(base, None if exactish else 18)
        except ValueError:
            cnt["twin_not_expressible"] += 1
            continue
        if any(len(t["price"][0].replace(".", "")) > 26 or len(t["amount"].replace(".", "")) > 26
               for t in twin if t["kind"] in ("BUY", "SELL")):
            cnt["twin_too_many_digits"] += 1
            continue
        if not exactish and event_on_zero_holding(base):
            cnt["rounded_twin_skipped_event_on_zero_holding"] += 1
            continue
        placements(base, cnt)
        reqs += [lc.calc_case(base, front=True), lc.calc_case(twin, front=True)]
        meta.append((base, twin, scale))
    obs = probe().run(reqs)
    for i, (base, twin, scale) in enumerate(meta):
        oa, ob = obs[2 * i], obs[2 * i + 1]
        cnt["twins"] += 1
        vs = compare_twin(base, twin, scale, oa, ob, exactish, cnt)
        if "ok" in oa and any(y["disposals"] for y in oa["ok"]["report"]["tax_years"]):
            hashes.add(sha(base)[:16])
        for x in vs:
            x["case"] = {"op": "twin", "txs": base, "exactish": exactish}
            viols.append(x)
        if len(samples) < 2 and not vs and len(base) <= 8 and "ok" in oa:
            samples.append({"with_splits": lc.brief(base), "post_split_units": lc.brief(twin)})
    return {"evaluations": len(reqs), "nontrivial_hashes": hashes, "counters": cnt, "violations": cap_viols(viols), "samples": samples}


def f15_shape(txs):
    """Some security has a SPLIT/UNSPLIT on one of its trade dates, dated inside (or at either end of) the 30 days
    between a SELL and a later BUY of that security - the only place where the look-ahead's line-order-dependent
    reading of a same-date split (F15) can act."""
    split_days = {(t["ticker"], t["date"]) for t in txs if t["kind"] in ("SPLIT", "UNSPLIT")}
    trade_days = {(t["ticker"], t["date"]) for t in txs if t["kind"] in ("BUY", "SELL")}
    for tk, d_ in split_days & trade_days:
        sd = pdate(d_)
        sells = [pdate(t["date"]) for t in txs if t["ticker"] == tk and t["kind"] == "SELL"]
        buys = [pdate(t["date"]) for t in txs if t["ticker"] == tk and t["kind"] == "BUY"]
        for s_ in sells:
            for b_ in buys:
                if 0 < (b_ - s_).days <= 30 and s_ <= sd <= b_:
                    return True
    return False


def judge_split_day(base, obs3, cnt):
    """Set-valued oracle for a ledger with SPLIT/UNSPLIT on trade dates: whether a split applies before or after the
    trades of its date is fixed by no property, so the report must equal the post-split-units twin under at least one
    of the two readings (applied consistently to the whole ledger)."""
    oa, o_pre, o_post = obs3
    t_pre, sc_pre = rescale_to_final_units(base, None, same_day="pre")
    t_post, sc_post = rescale_to_final_units(base, None, same_day="post")
    v_pre = compare_twin(base, t_pre, sc_pre, oa, o_pre, True, Counter())
    v_post = compare_twin(base, t_post, sc_post, oa, o_post, True, Counter())
    if not v_pre or not v_post:
        cnt["split_day_matches_reading_" + ("both" if not v_pre and not v_post else ("pre" if not v_pre else "post"))] += 1
        return []
    # F15 (open): the 30-day look-ahead applies a same-date split iff its line precedes the trade's line - a third,
    # line-order-dependent reading. It can only matter for a security with a split on a trade date and a 30-day leg.
    sfx = ":30-day-window-over-a-split-on-a-trade-date" if f15_shape(base) else ""
    if "ok" not in oa:
        sfx += ":refused"
    out = []
    for x in v_pre[:1]:
        out.append({"clause": "matches-neither-reading-of-a-split-on-a-trade-date",
                    "signature": "matches-neither-reading-of-a-split-on-a-trade-date" + sfx,
                    "detail": "split after that date's trades: " + str(x["detail"])[:300] + " || split before them: "
                              + str(v_post[0]["detail"])[:300]})
    return out


def run_twin_split_day(desc):
    rng = rng_for(PROP, desc["seed"], desc["cls"], desc["shard"])
    cnt, viols, hashes, samples = Counter(), [], set(), []
    reqs, meta = [], []
    import vf.gen.ledger as G
    for _ in range(desc["n"]):
        opts = Opts(capital=rng.random() < 0.6, splits=True, strict_splits=False, nonterm_splits=False, n_sec=(1, 2),
                    steps=(4, 12), templates_p=0.3, qty_dp=3, price_dp=4)
        saved = G.SPLIT_RATIOS_TERM
        G.SPLIT_RATIOS_TERM = EXACT_RATIOS
        try:
            base, _f = gen_ledger(rng, opts)
        finally:
            G.SPLIT_RATIOS_TERM = saved
        if not lc.split_trade_same_day(base):
            continue
        try:
            t_pre, _ = rescale_to_final_units(base, None, same_day="pre")
            t_post, _ = rescale_to_final_units(base, None, same_day="post")
        except ValueError:
            cnt["twin_not_expressible"] += 1
            continue
        if any(len(t["price"][0].replace(".", "")) > 26 or len(t["amount"].replace(".", "")) > 26
               for tw in (t_pre, t_post) for t in tw if t["kind"] in ("BUY", "SELL")):
            cnt["twin_too_many_digits"] += 1
            continue
        reqs += [lc.calc_case(base, front=True), lc.calc_case(t_pre, front=True), lc.calc_case(t_post, front=True)]
        meta.append(base)
    obs = probe().run(reqs)
    for i, base in enumerate(meta):
        cnt["split_day_twins"] += 1
        vs = judge_split_day(base, obs[3 * i: 3 * i + 3], cnt)
        if "ok" in obs[3 * i]:
            hashes.add(sha(base)[:16])
        for x in vs:
            x["case"] = {"op": "twin_split_day", "txs": base}
            viols.append(x)
    return {"evaluations": len(reqs), "nontrivial_hashes": hashes, "counters": cnt, "violations": cap_viols(viols), "samples": samples}


def run_pair(desc):
    """SPLIT r immediately followed by UNSPLIT r (no trade between) changes nothing."""
    rng = rng_for(PROP, desc["seed"], "pair", desc["shard"])
    cnt = Counter()
    viols = []
    hashes = set()
    samples = []
    reqs = []
    meta = []
    for _ in range(desc["n"]):
        base, _f = gen_ledger(rng, Opts(capital=rng.random() < 0.4, splits=rng.random() < 0.5, n_sec=(1, 2), steps=(3, 10)))
        tk = rng.choice(sorted({t["ticker"] for t in base}))
        dates = sorted({pdate(t["date"]) for t in base if t["ticker"] == tk})
        busy = {pdate(t["date"]) for t in base if t["ticker"] == tk}
        # a date (or two consecutive dates) with nothing of that security on it
        for _try in range(20):
            s = dates[0] + dt.timedelta(days=rng.randint(1, max(2, (dates[-1] - dates[0]).days + 20)))
            gap = rng.choice([0, 0, 1])
            e = s + dt.timedelta(days=gap)
            if s not in busy and e not in busy:
                break
        else:
            continue
        ratio = rng.choice(EXACT_RATIOS + ["3", "7", "1.5", "0.3", "6"])
        first = rng.choice(["SPLIT", "UNSPLIT"])
        second = "UNSPLIT" if first == "SPLIT" else "SPLIT"
        var = base + [{"date": iso(s), "ticker": tk, "kind": first, "ratio": ratio},
                      {"date": iso(e), "ticker": tk, "kind": second, "ratio": ratio}]
        var.sort(key=lambda t: t["date"])   # stable: SPLIT stays before UNSPLIT on one date
        if not (is_terminating(fr(ratio)) and is_terminating(1 / fr(ratio))) and event_on_zero_holding(var):
            # a capital event on an exactly-zero holding after a non-terminating pair: whether ~1e-27 of a share is
            # "held" decides (known residue family, reported by C11); not a statement about splits
            cnt["pairs_skipped_event_on_zero_holding_after_nonterminating_pair"] += 1
            continue
        reqs += [lc.calc_case(base, front=True), lc.calc_case(var, front=True)]
        meta.append((base, var, ratio, first))
    obs = probe().run(reqs)
    for i, (base, var, ratio, first) in enumerate(meta):
        oa, ob = obs[2 * i], obs[2 * i + 1]
        cnt["split_unsplit_pairs"] += 1
        nonterm = not (is_terminating(fr(ratio)) and is_terminating(1 / fr(ratio)))
        if nonterm:
            cnt["pairs_nonterminating_ratio"] += 1
        vs = compare_twin(base, var, {}, oa, ob, not nonterm and not lc.nonterminating_split(base), cnt)
        hashes.add(sha(var)[:16])
        for x in vs:
            x["signature"] = x["signature"].replace("twin-differs", "split-unsplit-pair-changes-report")
            x["case"] = {"op": "pair", "txs": base, "variant": var}
            viols.append(x)
        if len(samples) < 1 and not vs and len(var) <= 9 and "ok" in oa:
            samples.append({"ledger_with_cancelling_pair": lc.brief(var)})
    return {"evaluations": len(reqs), "nontrivial_hashes": hashes, "counters": cnt, "violations": cap_viols(viols), "samples": samples}


def run_shard(desc):
    return run_twin(desc) if desc["kind"] == "twin" else run_pair(desc)


def replay(case):
    if case.get("op") == "twin_split_day":
        base = case["txs"]
        t_pre, _ = rescale_to_final_units(base, None, same_day="pre")
        t_post, _ = rescale_to_final_units(base, None, same_day="post")
        obs = probe().run([lc.calc_case(base, front=True), lc.calc_case(t_pre, front=True), lc.calc_case(t_post, front=True)])
        return judge_split_day(base, obs, Counter()), {"base": obs[0]}
    if case.get("op") == "twin":
        twin, scale = rescale_to_final_units(case["txs"], None if case["exactish"] else 18)
        oa, ob = probe().run([lc.calc_case(case["txs"], front=True), lc.calc_case(twin, front=True)])
        return compare_twin(case["txs"], twin, scale, oa, ob, case["exactish"], Counter()), {"base": oa, "twin": ob}
    oa, ob = probe().run([lc.calc_case(case["txs"], front=True), lc.calc_case(case["variant"], front=True)])
    vs = compare_twin(case["txs"], case["variant"], {}, oa, ob, not lc.nonterminating_split(case["variant"]), Counter())
    for x in vs:
        x["signature"] = x["signature"].replace("twin-differs", "split-unsplit-pair-changes-report")
    return vs, {"base": oa, "variant": ob}


THRESHOLDS = {"twins": 1500, "split_inside_30day_window": 200, "split_before_capital_event": 100,
              "split_after_capital_event": 100, "split_unsplit_pairs": 1000, "disposals_in_rescaled_units": 2000}
RULE = ("ledgers with 1+ splits/unsplits vs their twin rewritten in post-split units (exact class: ratios whose "
        "reciprocal terminates, figures compared to 1e-9; rounded class: any ratio, twin rounded at 18 dp, figures "
        "compared to 1e-7 relative), plus SPLIT r/UNSPLIT r cancelling pairs inserted at idle dates; distinct by ledger hash")
