"""C11 - capital returns / accumulations move cost by exactly their amount; dividends change only
dividend totals; no negative allowable cost; over-large returns are refused citing s122."""
from __future__ import annotations

import copy
import datetime as dt
from collections import Counter, defaultdict
from fractions import Fraction

from ..gen.ledger import Opts, gen_ledger
from ..model import hmrc
from ..probe import probe
from ..util import cap_viols, rng_for, sha, fr, dstr, iso, d as pdate, ZERO, TOL_10DP, TOL_FINE
from . import ledger_core as lc

PROP = "C11"


def plan(tier, seed):
    k = 64 if tier == "quick" else 600
    shards = []
    for kind in ("event", "event_split_day", "cancel", "dividend", "oversize"):
        shards += [{"kind": kind, "seed": seed, "shard": i, "n": 150} for i in range(k)]
    return shards


def base_ledger(rng, capital=False):
    return gen_ledger(rng, Opts(capital=capital, splits=rng.random() < 0.5, n_sec=(1, 2), steps=(4, 12),
                                templates_p=0.45, dividends=False))[0]


def position_before(days, tk, date):
    pos = ZERO
    for dy in days.get(tk, []):
        if dy.date >= date:
            break
        pos += dy.A - dy.S
        for m in dy.splits:
            pos *= m
    return pos


def idle_date(rng, txs, tk):
    """A date with no line of that security (strict: events never share a date with its trades)."""
    dates = sorted({pdate(t["date"]) for t in txs if t["ticker"] == tk})
    busy = set(dates)
    for _ in range(30):
        s = dates[0] + dt.timedelta(days=rng.randint(-5, (dates[-1] - dates[0]).days + 40))
        if s not in busy:
            return s
    return None


def sec_cost(rep, tk):
    legs = sum((l["cost"] for d in lc.all_disposals(rep) if d["ticker"] == tk for l in d["legs"]), ZERO)
    return legs, rep["holdings"].get(tk, (ZERO, ZERO))[1]


def negative_costs(rep):
    out = []
    for d in lc.all_disposals(rep):
        for l in d["legs"]:
            if l["cost"] < -TOL_FINE * 1000:
                out.append(f"{d['ticker']} {d['date']} {l['rule']} {l['acq']}: allowable cost {float(l['cost'])!r}")
    for tk, (q, c) in rep["holdings"].items():
        if c < -TOL_FINE * 1000:
            out.append(f"holding {tk}: cost {float(c)!r}")
    return out


def neg_signature(txs, rep):
    """Narrow key for negative-cost findings: which rule's leg (or the holding) went negative, and whether the
    security has a CAPRETURN at all (without one a negative cost has no known explanation)."""
    for d in lc.all_disposals(rep):
        for l in d["legs"]:
            if l["cost"] < -TOL_FINE * 1000:
                has_cr = any(t["kind"] == "CAPRETURN" and t["ticker"] == d["ticker"] for t in txs)
                if not has_cr:
                    return "negative-cost:" + l["rule"] + ":no-capreturn-in-security"
                if l["rule"] == "BedAndBreakfast" and any(
                        t["kind"] == "CAPRETURN" and t["ticker"] == d["ticker"] and pdate(t["date"]) > l["acq"]
                        for t in txs):
                    return "negative-cost:30-day-leg-with-later-capreturn"
                return "negative-cost:" + l["rule"] + ":capreturn-apportioned-over-lots-by-share-count"
    for tk, (q, c) in rep["holdings"].items():
        if c < -TOL_FINE * 1000:
            has_cr = any(t["kind"] == "CAPRETURN" and t["ticker"] == tk for t in txs)
            has_bnb = any(l["rule"] == "BedAndBreakfast" for d in lc.all_disposals(rep) if d["ticker"] == tk for l in d["legs"])
            if has_cr and has_bnb:
                return "negative-cost:holding:capreturn-sized-by-a-pre-pass-that-ignores-30-day-identification"
            if has_cr:
                return "negative-cost:holding:capreturn-apportioned-over-lots-by-share-count"
    return "negative-cost:holding"


def unmarked(txs):
    return [t for t in txs if not t.get("_ev")]


def marked_events(txs):
    return [t for t in txs if t.get("_ev")]


def event_net(ev):
    if ev["kind"] == "CAPRETURN":
        return -(fr(ev["total"][0]) - fr(ev["fees"][0]))
    return fr(ev["total"][0])


# ---- builders: return the ledger WITH the extra event(s) marked "_ev" ------------------------

def build_event(rng):
    base = base_ledger(rng, capital=rng.random() < 0.3)
    tk = rng.choice(sorted({t["ticker"] for t in base}))
    s = idle_date(rng, base, tk)
    if s is None:
        return None
    kind = rng.choice(["CAPRETURN", "ACCUMULATION"])
    amt = Fraction(rng.randint(1, 3000), 100)
    extra = Fraction(rng.randint(0, 50), 100) if rng.random() < 0.4 else ZERO
    extra = min(extra, amt)
    # the quoted quantity is informational: far above, around and below any holding the base ledger can have
    evq = rng.choice(["1", "1", "1000000", "250", "0.001", "37.5"])
    if kind == "CAPRETURN":
        ev = {"date": iso(s), "ticker": tk, "kind": kind, "amount": evq, "total": [dstr(amt), "GBP"],
              "fees": [dstr(extra), "GBP"], "_ev": True}
    else:
        ev = {"date": iso(s), "ticker": tk, "kind": kind, "amount": evq, "total": [dstr(amt), "GBP"],
              "tax": [dstr(extra), "GBP"], "_ev": True}
    copies = rng.choice([1, 1, 1, 1, 1, 2, 3])       # identical lines are separate events (two accounts, one fund)
    return sorted(base + [dict(ev) for _ in range(copies)], key=lambda t: t["date"])


def build_event_split_day(rng):
    """Labelled class: a SPLIT/UNSPLIT may share a date with trades of its security (the convention - before or
    after that day's trades - is fixed by no property). The oracle here never consults the statute model for the
    holding: it reads the matching pass's own day-end positions (hook H2), so it only demands that the pre-pass and
    the matching pass agree with each other."""
    for _ in range(20):
        base = gen_ledger(rng, Opts(capital=rng.random() < 0.3, splits=True, strict_splits=False, n_sec=(1, 2),
                                    steps=(4, 12), templates_p=0.3, dividends=False))[0]
        if lc.split_trade_same_day(base):
            break
    else:
        return None
    tks = sorted({t["ticker"] for t in base if t["kind"] in ("SPLIT", "UNSPLIT")
                  and any(u["ticker"] == t["ticker"] and u["date"] == t["date"] and u["kind"] in ("BUY", "SELL")
                          for u in base)})
    if not tks:
        return None
    tk = rng.choice(tks)
    s = idle_date(rng, base, tk)
    if s is None:
        return None
    kind = rng.choice(["CAPRETURN", "ACCUMULATION"])
    amt = Fraction(rng.randint(1, 3000), 100)
    ev = {"date": iso(s), "ticker": tk, "kind": kind, "amount": "1", "total": [dstr(amt), "GBP"], "_ev": True}
    ev["fees" if kind == "CAPRETURN" else "tax"] = ["0", "GBP"]
    out = sorted(base + [ev], key=lambda t: t["date"])
    for t in out:
        if t.get("_ev"):
            t["_own_positions"] = True
    return out


def own_positions(snapshots, tk):
    """[(date, matching pass's own net position of tk at that day's end)] from hook H2."""
    out = []
    for sn in snapshots or []:
        if sn.get("phase") != "day":
            continue
        for t_, q_ in sn.get("positions", []):
            if t_ == tk:
                out.append((pdate(sn["date"]), fr(q_)))
    return out


def judge_event(var, oa, ob, cnt):
    viols = []
    base = unmarked(var)
    evs = marked_events(var)
    if not evs or any(e != evs[0] for e in evs) or "ok" not in oa:
        return viols
    ev = evs[0]
    # the same event line may appear two or three times (one line per account holding units of the same fund):
    # each line is an event of its own, so the cost must move by the sum
    tk, s, kind, net = ev["ticker"], pdate(ev["date"]), ev["kind"], event_net(ev) * len(evs)
    if len(evs) > 1:
        cnt["events_listed_more_than_once(identical lines)"] += 1
    if any(t["ticker"] == tk and t["date"] == ev["date"] for t in base):
        return viols  # (minimiser) keep the event on an idle date
    own = own_positions(oa.get("snapshots"), tk)
    if ev.get("_own_positions"):
        if not own and not oa.get("snapshots"):
            from ..probe import hooks_available
            if hooks_available():
                viols.append({"clause": "hook-missing", "signature": "hook-missing", "detail": "no day-end snapshots"})
            else:
                cnt["hook_unavailable:split_day_events_not_judged"] += 1
            return viols
        before = [q for (dd, q) in own if dd < s]
        pos = before[-1] if before else ZERO
        cnt["split_day_events"] += 1
    else:
        days, _, _ = hmrc.build_days(base)
        pos = position_before(days, tk, s)
    A = lc.parse_report(oa["ok"]["report"])
    if "ok" not in ob:
        msg = ob.get("err", {}).get("message", str(ob))
        if kind == "CAPRETURN" and "exceeds allowable cost" in msg:
            cnt["events_refused_s122"] += 1
            if "S122" not in msg:
                viols.append({"clause": "refusal-does-not-cite-s122", "signature": "refusal-does-not-cite-s122",
                              "detail": msg[:200]})
        elif "panic" in ob:
            cnt["panic(routed to C15)"] += 1
        else:
            viols.append({"clause": "event-makes-ledger-rejected", "signature": "event-makes-ledger-rejected",
                          "detail": f"{kind} on {s}: {msg[:200]}"})
        return viols
    B = lc.parse_report(ob["ok"]["report"])
    la, ca = sec_cost(A, tk)
    lb, cb = sec_cost(B, tk)
    delta = (lb + cb) - (la + ca)
    scale = abs(la) + abs(ca) + abs(net) + 1
    tolr = TOL_FINE * 10 ** 4 + Fraction(1, 10 ** 17) * scale
    nonterm = lc.nonterminating_split([t for t in base if t["ticker"] == tk])
    if nonterm and 0 < pos < Fraction(1, 10 ** 15):
        pos = ZERO      # the matcher's own position is decimal residue of a non-terminating ratio (~1e-24): "zero held"
    if pos > 0:
        cnt["events_took_effect"] += 1
        ok = abs(delta - net) <= tolr
    elif nonterm:
        cnt["events_zero_holding_after_nonterminating_split"] += 1
        ok = abs(delta) <= tolr or abs(delta - net) <= tolr
        if abs(delta - net) <= tolr:
            viols.append({"clause": "event-applied-with-no-shares-held",
                          "signature": "event-applied-to-decimal-residue-holding:nonterminating-split-ratio",
                          "detail": f"{kind} on {s} while exactly zero {tk} shares are held still moved cost by {float(delta)!r}"})
    else:
        cnt["events_no_shares_held"] += 1
        ok = abs(delta) <= tolr
    if not ok:
        viols.append({"clause": "cost-moved-by-wrong-amount", "signature": "cost-moved-by-wrong-amount",
                      "detail": f"{kind} on {s} (net {float(net)!r}, {float(pos)!r} shares held): "
                                f"sum(leg costs)+closing cost moved by {float(delta)!r}"})
    for other in set(A["holdings"]) | {d["ticker"] for d in lc.all_disposals(A)}:
        if other != tk and sec_cost(A, other) != sec_cost(B, other):
            viols.append({"clause": "event-leaks-to-other-security", "signature": "event-leaks-to-other-security",
                          "detail": f"{other} costs changed by an event on {tk}"})
    da = {(d["date"], d["ticker"]): d for d in lc.all_disposals(A)}
    for d in lc.all_disposals(B):
        if d["ticker"] != tk:
            continue
        ref = da.get((d["date"], d["ticker"]))
        if not ref:
            continue
        ma = {(l["rule"], l["acq"]): l for l in lc.merged_legs(ref["legs"])}
        mb = {(l["rule"], l["acq"]): l for l in lc.merged_legs(d["legs"])}
        for k, l in mb.items():
            if k[1] is not None and k[1] > s and k in ma:
                cnt["legs_acquired_after_event"] += 1
                if abs(l["cost"] - ma[k]["cost"]) > tolr:
                    viols.append({"clause": "adjustment-reaches-later-acquisition",
                                  "signature": "adjustment-reaches-later-acquisition",
                                  "detail": f"{tk} {d['date']} {k[0]} acquired {k[1]} (after the event of {s}): cost "
                                            f"{float(ma[k]['cost'])!r} -> {float(l['cost'])!r}"})
    # "spread only over shares already held": once the matching pass's own position in the security has been exactly
    # zero at a day end before the event, everything acquired up to that day is gone, so no leg drawn from those
    # acquisitions may move. (Legs matched to acquisitions after that day are the F6 family and are not judged here.)
    zero_days = [dd for (dd, q) in own if dd < s and q == 0]
    if zero_days and not nonterm:
        z = max(zero_days)
        for d in lc.all_disposals(B):
            if d["ticker"] != tk or d["date"] > z:
                continue
            ref = da.get((d["date"], d["ticker"]))
            if not ref:
                continue
            ma = {(l["rule"], l["acq"]): l for l in lc.merged_legs(ref["legs"])}
            for l in lc.merged_legs(d["legs"]):
                k = (l["rule"], l["acq"])
                if (k[1] is None or k[1] <= z) and k in ma:
                    cnt["legs_before_a_sell_out_checked"] += 1
                    if abs(l["cost"] - ma[k]["cost"]) > tolr:
                        viols.append({"clause": "adjustment-reaches-shares-sold-before-the-event",
                                      "signature": "adjustment-reaches-shares-sold-before-the-event",
                                      "detail": f"{tk}: nothing held at the end of {z}, event on {s}, yet the {k[0]} leg of "
                                                f"the {d['date']} disposal moved {float(ma[k]['cost'])!r} -> {float(l['cost'])!r}"})
    neg = negative_costs(B)
    if neg and not negative_costs(A):
        viols.append({"clause": "negative-allowable-cost", "signature": neg_signature(var, B),
                      "detail": "; ".join(neg[:3])})
    return viols


def build_cancel(rng):
    base = base_ledger(rng, capital=rng.random() < 0.3)
    tk = rng.choice(sorted({t["ticker"] for t in base}))
    s = idle_date(rng, base, tk)
    if s is None:
        return None
    amt = Fraction(rng.randint(1, 3000), 100)
    fee = Fraction(rng.randint(0, 200), 100)
    pair = [{"date": iso(s), "ticker": tk, "kind": "ACCUMULATION", "amount": rng.choice(["1", "1", "1000000", "0.001"]), "total": [dstr(amt), "GBP"],
             "tax": ["0", "GBP"], "_ev": True},
            {"date": iso(s), "ticker": tk, "kind": "CAPRETURN", "amount": rng.choice(["1", "1", "250", "1000000"]), "total": [dstr(amt + fee), "GBP"],
             "fees": [dstr(fee), "GBP"], "_ev": True}]
    if rng.random() < 0.5:
        pair.reverse()
    return sorted(base + pair, key=lambda t: t["date"])


def judge_cancel(var, oa, ob, cnt):
    viols = []
    evs = marked_events(var)
    if len(evs) != 2 or "ok" not in oa or {e["kind"] for e in evs} != {"ACCUMULATION", "CAPRETURN"}:
        return viols
    base = unmarked(var)
    if any(t["ticker"] == evs[0]["ticker"] and t["date"] == evs[0]["date"] for t in base):
        return viols
    cnt["cancel_pairs"] += 1
    if "ok" not in ob:
        msg = ob.get("err", {}).get("message", str(ob))
        days_, _, _ = hmrc.build_days(base)
        held = position_before(days_, evs[0]["ticker"], pdate(evs[0]["date"]))
        if "exceeds allowable cost" in msg and held <= 0:
            cnt["cancel_pair_with_no_shares_held(return refused, not compared)"] += 1
            return viols
        if "exceeds allowable cost" in msg and lc.nonterminating_split([t for t in base if t["ticker"] == evs[0]["ticker"]]) \
                and held < Fraction(1, 10 ** 3):
            cnt["cancel_pair_on_residue_holding(not compared)"] += 1
            return viols
        # F6e: the s122 test sizes the return against a first-in-first-out pre-pass that drops the whole cost of lots it
        # considers sold out; that can only bite when the security was sold before the pair's date
        sold_before = any(t["kind"] == "SELL" and t["ticker"] == evs[0]["ticker"] and t["date"] < evs[0]["date"] for t in base)
        sfx = ":security-has-earlier-sales" if ("exceeds allowable cost" in msg and sold_before) else ""
        viols.append({"clause": "cancelling-pair-rejected", "signature": "cancelling-pair-rejected" + sfx, "detail": msg[:200]})
        return viols
    A, B = lc.parse_report(oa["ok"]["report"]), lc.parse_report(ob["ok"]["report"])
    diffs = lc.compare_reports(A, B, exact=False, leg_gains=False, label=("without", "with-pair"))
    if diffs:
        viols.append({"clause": "equal-accumulation-and-return-do-not-cancel",
                      "signature": "equal-accumulation-and-return-do-not-cancel", "detail": "; ".join(diffs[:3])})
    return viols


def build_dividend(rng):
    base = base_ledger(rng, capital=rng.random() < 0.5)
    tk = rng.choice(sorted({t["ticker"] for t in base}) + ["NEWCO"])
    dates = sorted({pdate(t["date"]) for t in base})
    s = dates[0] + dt.timedelta(days=rng.randint(-10, (dates[-1] - dates[0]).days + 10))
    amt = Fraction(rng.randint(1, 100000), 100)
    tax = Fraction(rng.randint(0, 1000), 100) if rng.random() < 0.5 else ZERO
    dv = {"date": iso(s), "ticker": tk, "kind": "DIVIDEND", "total": [dstr(amt), "GBP"], "tax": [dstr(tax), "GBP"], "_ev": True}
    var = list(base)
    # half of the time the dividend line is put right between two lines of one date (its own date set to theirs): a
    # dividend must not disturb how that day's trades are grouped either
    same = [i for i in range(1, len(base)) if base[i]["date"] == base[i - 1]["date"]]
    if same and rng.random() < 0.5:
        i_ = rng.choice(same)
        dv["date"] = base[i_]["date"]
        if rng.random() < 0.6:
            dv["ticker"] = base[i_]["ticker"]
        var.insert(i_, dv)
    else:
        var.insert(rng.randint(0, len(var)), dv)
    return var


def judge_dividend(var, oa, ob, cnt):
    from ..util import tax_year_of
    viols = []
    evs = marked_events(var)
    if len(evs) != 1:
        return viols
    s, amt, tax = pdate(evs[0]["date"]), fr(evs[0]["total"][0]), fr(evs[0]["tax"][0])
    if ("ok" in oa) != ("ok" in ob):
        viols.append({"clause": "dividend-changes-acceptance", "signature": "dividend-changes-acceptance",
                      "detail": str(ob.get("err"))[:200]})
        return viols
    if "ok" not in oa:
        return viols
    cnt["dividend_pairs"] += 1
    A, B = lc.parse_report(oa["ok"]["report"]), lc.parse_report(ob["ok"]["report"])
    # a line dropped between two same-day SELL lines regroups per-sell-line legs (known finding F16 of
    # C06/C09); there the merged view is compared instead of the bit-exact one
    regroup = lc.sell_runs(var) != lc.sell_runs(unmarked(var))
    if regroup:
        cnt["dividend_line_between_same_day_sells(merged view compared)"] += 1
    diffs = lc.compare_reports(A, B, exact=not regroup, leg_gains=not regroup, dividends=False,
                               label=("without", "with-dividend"))
    if regroup and not diffs:
        exact_diffs = lc.compare_reports(A, B, exact=True, leg_gains=True, dividends=False, label=("without", "with-dividend"))
        raw = [[(l["rule"], l["acq"], l["qty"]) for l in d["legs"]] for d in lc.all_disposals(A)] != \
              [[(l["rule"], l["acq"], l["qty"]) for l in d["legs"]] for d in lc.all_disposals(B)]
        if exact_diffs or raw:
            viols.append({"clause": "dividend-changes-more-than-dividend-totals",
                          "signature": "F16:dividend-line-between-same-day-sells-regroups-their-legs",
                          "detail": "a DIVIDEND line between two same-day SELL lines of one security splits their merged "
                                    "sale into two runs: per-run legs (and last digits) change, merged legs/costs/totals do not"})
    ty = tax_year_of(s)
    for y in B["years"]:
        ref = next((x for x in A["years"] if x["start_year"] == y["start_year"]), None)
        if ref is None:
            continue
        want_i = ref["dividend_income"] + (amt if y["start_year"] == ty else 0)
        want_t = ref["dividend_tax_paid"] + (tax if y["start_year"] == ty else 0)
        if y["dividend_income"] != want_i or y["dividend_tax_paid"] != want_t:
            diffs.append(f"{y['period']}: dividend totals {y['dividend_income']}/{y['dividend_tax_paid']} expected {want_i}/{want_t}")
        if y["start_year"] == ty:
            cnt["dividends_landing_in_a_reported_year"] += 1
    if diffs:
        viols.append({"clause": "dividend-changes-more-than-dividend-totals",
                      "signature": "dividend-changes-more-than-dividend-totals", "detail": "; ".join(diffs[:3])})
    return viols


def build_oversize(rng):
    """Needs the tool's own report of the prefix: built in two steps by run_pairs (size chosen there)."""
    base = base_ledger(rng)
    if rng.random() < 0.3:
        # a security that is only ever bought (the unambiguous case for the s122 test)
        tk = "ONLYB"
        D = pdate(base[0]["date"])
        for i in range(rng.randint(1, 4)):
            D += dt.timedelta(days=rng.randint(0, 90))
            base.append({"date": iso(D), "ticker": tk, "kind": "BUY", "amount": str(rng.randint(1, 500)),
                         "price": [dstr(Fraction(rng.randint(1, 99999), 100)), "GBP"],
                         "fees": [dstr(Fraction(rng.randint(0, 999), 100)), "GBP"]})
        if rng.random() < 0.4:
            D += dt.timedelta(days=rng.randint(1, 90))
            base.append({"date": iso(D), "ticker": tk, "kind": "SPLIT", "ratio": rng.choice(["2", "3", "0.5"])})
    else:
        tk = rng.choice(sorted({t["ticker"] for t in base}))
    ts = sorted([t for t in base if t["ticker"] == tk], key=lambda t: t["date"])
    s = pdate(ts[-1]["date"]) + dt.timedelta(days=rng.choice([31, 40, 100]))
    o = probe().one(lc.calc_case(base))
    if "ok" not in o:
        return None
    R = lc.parse_report(o["ok"]["report"])
    q, c = R["holdings"].get(tk, (ZERO, ZERO))
    if q <= Fraction(1, 10 ** 6):
        return None
    mode = rng.choice(["over", "over", "equal", "under"])
    cents = int(c * 100)
    if mode == "over":
        net = Fraction(cents + 1 + rng.choice([0, 1, 100, 10 ** 4]), 100)
    elif mode == "equal":
        net = Fraction(cents, 100)
    else:
        net = Fraction(max(0, cents - 1 - rng.choice([0, 50])), 100)
    if net <= 0:
        return None
    fee = Fraction(rng.randint(0, 100), 100) if rng.random() < 0.3 else ZERO
    ev = {"date": iso(s), "ticker": tk, "kind": "CAPRETURN", "amount": dstr(Fraction(int(q * 1000) + 1, 1000) * rng.choice([1, 1, 2, 100])),
          "total": [dstr(net + fee), "GBP"], "fees": [dstr(fee), "GBP"], "_ev": True}
    return base + [ev]


def fifo_whole_lot_cost(base, tk):
    """Sum of q*p+fees of every acquisition day of `tk` that still has a share left when that day's sells are
    taken from the same day's acquisition first and then from earlier lots first-in first-out (no capital events
    in the security, else None)."""
    ts = sorted([t for t in base if t["ticker"] == tk], key=lambda t: t["date"])
    if any(t["kind"] in ("CAPRETURN", "ACCUMULATION") for t in ts):
        return None
    lots = []   # [date, remaining, whole_cost]
    by_date = {}
    for t in ts:
        by_date.setdefault(t["date"], []).append(t)
    for date in sorted(by_date):
        day = by_date[date]
        bought = sum((fr(t["amount"]) for t in day if t["kind"] == "BUY"), ZERO)
        cost = sum((fr(t["amount"]) * fr(t["price"][0]) + fr(t["fees"][0]) for t in day if t["kind"] == "BUY"), ZERO)
        if any(t["kind"] == "BUY" and (t["price"][1] != "GBP" or t["fees"][1] != "GBP") for t in day):
            return None
        if bought > 0:
            lots.append([date, bought, cost])
        sold = sum((fr(t["amount"]) for t in day if t["kind"] == "SELL"), ZERO)
        if sold > 0:
            if lots and lots[-1][0] == date:
                take = min(sold, lots[-1][1])
                lots[-1][1] -= take
                sold -= take
            for lot in lots:
                if sold <= 0:
                    break
                if lot[0] == date:
                    continue
                take = min(sold, lot[1])
                lot[1] -= take
                sold -= take
        for t in day:
            if t["kind"] == "SPLIT":
                for lot in lots:
                    lot[1] *= fr(t["ratio"])
            elif t["kind"] == "UNSPLIT":
                for lot in lots:
                    lot[1] /= fr(t["ratio"])
    return sum((lot[2] for lot in lots if lot[1] > Fraction(1, 10 ** 12)), ZERO)


def judge_oversize(var, oa, ob, cnt):
    viols = []
    evs = marked_events(var)
    if len(evs) != 1 or "ok" not in oa:
        return viols
    ev = evs[0]
    base = unmarked(var)
    tk, s, net = ev["ticker"], pdate(ev["date"]), -event_net(ev)
    ts = [t for t in base if t["ticker"] == tk]
    if not ts or (s - max(pdate(t["date"]) for t in ts)).days <= 30:
        return viols   # clear sub-case only: nothing of the security within 30 days before the return
    R = lc.parse_report(oa["ok"]["report"])
    q, c = R["holdings"].get(tk, (ZERO, ZERO))
    if q <= Fraction(1, 10 ** 6):
        return viols
    # The known defect (F6a) counts the WHOLE cost of every lot that still has a share left (lots consumed first-in
    # first-out, same-day first, 30-day identification ignored).  A return accepted although it exceeds even that
    # figure is something else and gets its own signature.
    whole_cost_of_lots_still_held = fifo_whole_lot_cost(base, tk)
    has_bnb = any(l["rule"] == "BedAndBreakfast" for d in lc.all_disposals(R) if d["ticker"] == tk for l in d["legs"])
    has_sell = any(t["kind"] == "SELL" for t in ts)
    shape = (":security-has-30-day-legs" if has_bnb else (":security-has-earlier-sales" if has_sell else ":never-sold"))
    over = net > c + Fraction(1, 10 ** 6)
    if not over and net > c - Fraction(1, 10 ** 6):
        # exactly on the boundary: a residue of ~1e-24 in an averaged same-day price decides; not judged
        cnt["returns_exactly_at_the_remaining_expenditure(not judged)"] += 1
        return viols
    if over:
        cnt["oversize_returns"] += 1
        if "ok" in ob:
            neg = negative_costs(lc.parse_report(ob["ok"]["report"]))
            if whole_cost_of_lots_still_held is not None and net > whole_cost_of_lots_still_held + Fraction(1, 10 ** 6):
                shape += ":beyond-whole-cost-of-lots-still-held"
                if lc.nonterminating_split([t for t in base if t["ticker"] == tk]):
                    # after such a split the pre-pass keeps ~1e-26 of a share on lots that are exhausted in exact
                    # arithmetic, so their whole cost still counts (residue family F3c on top of F6a)
                    shape += ":residue-keeps-exhausted-lots-held"
            viols.append({"clause": "oversize-return-accepted", "signature": "oversize-return-accepted" + shape,
                          "detail": f"CAPRETURN net {float(net)!r} accepted although only {float(c)!r} of expenditure remains on the "
                                    f"{float(q)!r} {tk} shares held" + (f"; negative costs: {neg[:2]}" if neg else "")})
        else:
            msg = ob.get("err", {}).get("message", str(ob))
            if "S122" not in msg:
                viols.append({"clause": "refusal-does-not-cite-s122", "signature": "refusal-does-not-cite-s122", "detail": msg[:200]})
            else:
                cnt["oversize_refused_citing_s122"] += 1
                if shape == ":never-sold":
                    cnt["oversize_never_sold_refused"] += 1
    else:
        cnt["absorbable_returns"] += 1
        if "ok" not in ob:
            msg = ob.get("err", {}).get("message", str(ob))
            viols.append({"clause": "absorbable-return-refused", "signature": "absorbable-return-refused" + shape,
                          "detail": f"net {float(net)!r} <= remaining expenditure {float(c)!r}: {msg[:160]}"})
        else:
            B = lc.parse_report(ob["ok"]["report"])
            neg = negative_costs(B)
            if neg:
                viols.append({"clause": "negative-allowable-cost", "signature": neg_signature(var, B), "detail": "; ".join(neg[:3])})
    return viols


KINDS = {"event": (build_event, judge_event), "event_split_day": (build_event_split_day, judge_event), "cancel": (build_cancel, judge_cancel),
         "dividend": (build_dividend, judge_dividend), "oversize": (build_oversize, judge_oversize)}


def run_shard(desc):
    kind = desc["kind"]
    build, judge = KINDS[kind]
    rng = rng_for(PROP, desc["seed"], kind, desc["shard"])
    cnt = Counter()
    viols = []
    hashes = set()
    samples = []
    cases = []
    for _ in range(desc["n"]):
        var = build(rng)
        if var is not None:
            cases.append(var)
    reqs = []
    for var in cases:
        reqs += [lc.calc_case(unmarked(var), record=kind.startswith("event"), front=True), lc.calc_case(var, front=True)]
    obs = probe().run(reqs)
    for i, var in enumerate(cases):
        oa, ob = obs[2 * i], obs[2 * i + 1]
        vs = judge(var, oa, ob, cnt)
        if "ok" in ob:
            hashes.add(sha(var)[:16])
        for x in vs:
            x["case"] = {"op": kind, "txs": var}
            viols.append(x)
        if len(samples) < 1 and not vs and "ok" in ob and len(var) <= 9:
            samples.append({"kind": kind, "ledger_with_marked_event": lc.brief(var),
                            "marked": [dict(e) for e in marked_events(var)]})
    return {"evaluations": len(reqs), "nontrivial_hashes": hashes, "counters": cnt, "violations": cap_viols(viols), "samples": samples}


def replay(case):
    var = case["txs"]
    _, judge = KINDS[case["op"]]
    oa, ob = probe().run([lc.calc_case(unmarked(var), record=case["op"].startswith("event"), front=True), lc.calc_case(var, front=True)])
    oa_brief = {k: v for k, v in oa.items() if k != "snapshots"}
    return judge(var, oa, ob, Counter()), {"without": oa_brief, "with": ob}


THRESHOLDS = {"split_day_events": 1000, "legs_before_a_sell_out_checked": 1000, "oversize_never_sold_refused": 30, "events_took_effect": 800, "events_no_shares_held": 40, "legs_acquired_after_event": 300,
              "cancel_pairs": 800, "dividend_pairs": 800, "oversize_returns": 200, "absorbable_returns": 100}
RULE = ("with/without metamorphic pairs: one extra CAPRETURN/ACCUMULATION at an idle date of a security (any position "
        "relative to same-day, 30-day and pool matches and splits; plus a labelled class with SPLIT/UNSPLIT on trade dates "
        "whose holding is read from the matching pass's own day-end positions, hook H2; no leg drawn from acquisitions "
        "completely sold before the event may move), a cancelling ACCUMULATION+CAPRETURN pair, one "
        "extra DIVIDEND; plus capital returns sized just above/at/below the expenditure left in the tool's own report "
        "of the prefix ledger; sign check on every produced report; distinct by variant-ledger hash")
