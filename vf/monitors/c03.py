"""C03 - allowable-expenditure conservation per security."""
from __future__ import annotations

from collections import Counter, defaultdict
from fractions import Fraction

from ..gen.ledger import Opts, gen_ledger
from ..model import hmrc, fx as fxm
from ..util import rng_for, fr, d as pdate, ZERO, TOL_FINE
from . import ledger_core as lc

PROP = "C03"
CUR = ["USD", "EUR", "JPY", "CHF", "AUD", "CAD", "SEK", "INR"]
CLASSES = {
    "plain": dict(capital=False, splits=True, n_sec=(1, 3), fees_p=0.9),
    "capital": dict(capital=True, splits=True, n_sec=(1, 3), fees_p=0.8),
    "capital_dense": dict(capital=True, splits=True, n_sec=(1, 2), steps=(10, 22), templates_p=0.5, fees_p=0.9),
    # a SPLIT/UNSPLIT may share a date with trades of its security. Whether it applies before or after that day's
    # trades is not fixed by any property, so an event is only *required* to take effect (or to be ignored) when
    # both readings agree that shares are (or are not) held at the event date; conservation itself is convention-free.
    "split_on_trade_date": dict(capital=True, splits=True, strict_splits=False, n_sec=(1, 2), steps=(6, 14), fees_p=0.8,
                                templates_p=0.3),
    "fx": dict(capital=True, splits=True, n_sec=(1, 3), currencies=CUR, fees_p=0.9,
               start=(pdate("2016-01-01"), pdate("2024-06-01")), last_date=pdate("2026-02-20")),
}


def plan(tier, seed):
    k = 32 if tier == "quick" else 500
    return [{"cls": c, "seed": seed, "shard": i, "n": 250} for c in CLASSES for i in range(k)]


def oracle_with(to_gbp):
    def oracle(txs, obs, cnt, sets, feats):
        v = []
        if "ok" not in obs:
            cnt["not_accepted"] += 1
            return v
        rep = lc.parse_report(obs["ok"]["report"])
        try:
            days, _, cap_events = hmrc.build_days(txs, to_gbp)
        except fxm.MissingRate:
            cnt["model_missing_rate"] += 1
            return v
        # what the pre-pass attached (H2)
        pre = next((s for s in obs.get("snapshots", []) if s.get("phase") == "prepass"), None)
        if pre is None:
            from ..probe import hooks_available
            if hooks_available():
                v.append({"clause": "hook-missing", "detail": "no pre-pass snapshot recorded"})
                return v
            # the tree does not compile with verif-hooks (see build.py): what the pre-pass attached cannot be observed;
            # fall back to conservation against the amounts the events must move under the model's reading(s)
            cnt["hook_unavailable:prepass_offsets_not_observed"] += 1
        leg_cost = defaultdict(lambda: ZERO)
        legs_by_rule = defaultdict(set)
        for dd in lc.all_disposals(rep):
            for l in dd["legs"]:
                leg_cost[dd["ticker"]] += l["cost"]
                if l["qty"] > lc.DUST:
                    legs_by_rule[dd["ticker"]].add(l["rule"])
                if l["cost"] < -TOL_FINE:
                    cnt["negative_leg_cost(routed to C11)"] += 1
        tickers = set(days) | set(rep["holdings"]) | set(cap_events)
        for tk in tickers:
            ds = days.get(tk, [])
            base = sum((dy.C for dy in ds), ZERO)
            offsets = sum((fr(l["cost_offset"]) for l in pre["lots"].get(tk, [])), ZERO) if pre is not None else None
            # events that must take effect: shares held (model position) at the event date.
            # With zero shares held the event must be ignored -- except that after a split whose
            # ratio is not a terminating decimal the tool may see a residue holding of ~1e-26
            # shares; whether such an event applies is then left open here (C11 reports it).
            expected = ZERO
            optional = []
            nonterm = lc.nonterminating_split([t for t in txs if t["ticker"] == tk])
            for (date, kind, net, _q) in cap_events.get(tk, []):
                pos = ZERO      # splits applied after the day's trades
                pos_b = ZERO    # splits applied before the day's trades
                ambiguous_day = False
                for dy in ds:
                    if dy.date >= date:
                        break
                    pos += dy.A - dy.S
                    if dy.splits and (dy.A or dy.S):
                        ambiguous_day = True
                    for m in dy.splits:
                        pos *= m
                        pos_b *= m
                    pos_b += dy.A - dy.S
                signed = net if kind == "ACCUMULATION" else -net
                if ambiguous_day and (pos > 0) != (pos_b > 0):
                    # The two readings disagree on whether shares are held. The report's own closing holding
                    # shows which reading the tool follows for this security (when only one of them reproduces
                    # it); the event is then judged by that same reading - one notion of "held" per report.
                    conv = holding_convention(ds, rep["holdings"].get(tk, (ZERO, ZERO))[0])
                    cnt["events_where_split_day_convention_decides"] += 1
                    if conv is None:
                        optional.append(signed)
                        continue
                    cnt["events_judged_by_the_convention_the_holding_shows"] += 1
                    pos = pos if conv == "after" else pos_b
                if ambiguous_day:
                    cnt["events_after_a_split_on_a_trade_date"] += 1
                if pos > 0:
                    expected += signed
                    cnt["events_took_effect"] += 1
                elif nonterm:
                    optional.append(signed)
                    cnt["events_zero_holding_after_nonterminating_split"] += 1
                else:
                    cnt["events_no_shares_held"] += 1
            scale = abs(base) + abs(offsets or 0) + abs(expected) + 1
            tolr = TOL_FINE * 10 ** 3 + Fraction(1, 10 ** 18) * scale
            admissible = {expected}
            for o_ in optional[:10]:
                admissible |= {a_ + o_ for a_ in admissible}
            split_day = any(dy.splits and (dy.A or dy.S) for dy in ds)
            has_bnb = "BedAndBreakfast" in legs_by_rule[tk]
            if offsets is None and split_day and has_bnb:
                cnt["hook_unavailable:F15_shape_not_judged"] += 1
                continue
            if offsets is None:
                closing = rep["holdings"].get(tk, (ZERO, ZERO))[1]
                used = leg_cost[tk] + closing
                if not any(abs(used - (base + a_)) <= tolr * 1000 for a_ in admissible):
                    v.append({"clause": "cost-not-conserved",
                              "signature": "cost-not-conserved",
                              "detail": f"{tk}: legs {float(leg_cost[tk])!r} + closing {float(closing)!r} = {float(used)!r} != "
                                        f"acquisitions {float(base)!r} + capital events {[float(a_) for a_ in sorted(admissible)][:4]} "
                                        f"(hooks unavailable: model amounts used)"})
                cnt["securities_checked_without_hook"] += 1
                continue
            if not any(abs(offsets - a_) <= tolr for a_ in admissible) and split_day and has_bnb:
                # finding F15: with a split on a trade date the 30-day look-ahead and the day loop disagree about
                # the split, so the pool and the pre-pass can disagree about what is held
                v.append({"clause": "event-amount-not-applied-exactly",
                          "signature": "F15:split-on-trade-date-with-30-day-match:held-shares-disagree-between-passes",
                          "detail": f"{tk}: capital events should move cost by {float(expected)!r} but the lots carry "
                                    f"offsets totalling {float(offsets)!r}"})
                continue
            if not any(abs(offsets - a_) <= tolr for a_ in admissible):
                v.append({"clause": "event-amount-not-applied-exactly",
                          "detail": f"{tk}: capital events should move cost by {float(expected)!r} "
                                    f"but the lots carry offsets totalling {float(offsets)!r}"})
                continue
            closing = rep["holdings"].get(tk, (ZERO, ZERO))[1]
            used = leg_cost[tk] + closing
            want = base + offsets
            if abs(used - want) > tolr * 1000:
                v.append({"clause": "cost-not-conserved",
                          "detail": f"{tk}: legs {float(leg_cost[tk])!r} + closing {float(closing)!r} = {float(used)!r} "
                                    f"!= acquisitions {float(base)!r} + adjustments {float(offsets)!r} "
                                    f"(diff {float(used - want):.6e})"})
            cnt["securities_checked"] += 1
            if len(legs_by_rule[tk]) >= 2:
                cnt["securities_lots_feed_2plus_rules"] += 1
        for t in txs:
            for f in ("price", "fees", "total", "tax"):
                if f in t and t[f][1] != "GBP" and fr(t[f][0]) != 0:
                    sets.setdefault("currencies", set()).add(t[f][1])
                    cnt["foreign_amounts"] += 1
        return v
    return oracle


def holding_convention(ds, reported):
    """'after' / 'before' if exactly one reading of split-on-trade-date (split applied after / before that day's
    trades) reproduces the reported closing holding, else None."""
    a = b = ZERO
    for dy in ds:
        a += dy.A - dy.S
        for m in dy.splits:
            a *= m
            b *= m
        b += dy.A - dy.S
    t = TOL_FINE * 10 ** 6
    ok_a = abs(reported - a) <= t + Fraction(1, 10 ** 15) * abs(a)
    ok_b = abs(reported - b) <= t + Fraction(1, 10 ** 15) * abs(b)
    if ok_a and not ok_b:
        return "after"
    if ok_b and not ok_a:
        return "before"
    return None


def sample_fn(txs, o):
    if "ok" not in o:
        return None
    pre = next((s for s in o.get("snapshots", []) if s.get("phase") == "prepass"), {})
    return {"ledger": lc.brief(txs), "holdings": o["ok"]["report"]["holdings"],
            "prepass_offsets": {tk: [l["cost_offset"] for l in lots] for tk, lots in pre.get("lots", {}).items()}}


_known = None


def known_codes():
    global _known
    if _known is None:
        from ..probe import probe
        _known = {c["code"] for c in probe().one({"op": "currencies"})["ok"]}
    return _known


def run_shard(desc):
    rng = rng_for(PROP, desc["seed"], desc["cls"], desc["shard"])
    opts = Opts(**CLASSES[desc["cls"]])
    cases = [gen_ledger(rng, opts) for _ in range(desc["n"])]
    if desc["cls"] == "fx":
        table = fxm.Table(known_codes())
        return lc.run_ledger_cases(cases, oracle_with(fxm.converter(table)), record=True, fx="bundled",
                                   sample_fn=sample_fn)
    return lc.run_ledger_cases(cases, oracle_with(hmrc.gbp_identity), record=True, sample_fn=sample_fn)


def replay(case):
    from ..probe import probe
    fx = case.get("fx")
    o = probe().one(lc.calc_case(case["txs"], record=True, fx=fx, front=True))
    conv = fxm.converter(fxm.Table(known_codes())) if fx else hmrc.gbp_identity
    vs = oracle_with(conv)(case["txs"], o, Counter(), {}, set())
    for x in vs:
        x.setdefault("signature", x["clause"])
    return vs, o


THRESHOLDS = {"securities_lots_feed_2plus_rules": 500, "events_took_effect": 300, "foreign_amounts": 1000}
RULE = ("seeded shape-directed ledgers with fees on most trades, capital events while held, splits, and a "
        "foreign-currency class converted by an independent reading of the bundled HMRC tables; per security "
        "sum(leg costs)+closing cost must equal acquisitions + adjustments recorded by the H2 pre-pass hook, and "
        "those adjustments must equal the events' net amounts exactly; distinct by ledger hash")
