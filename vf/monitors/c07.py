"""C07 - tax-year assignment (exhaustive over 1900..2100) and year report == slice of all-years report."""
from __future__ import annotations

import datetime as dt
from collections import Counter

from ..gen.ledger import Opts, gen_ledger
from ..probe import probe
from ..util import cap_viols, rng_for, sha, iso, d as pdate, tax_year_of, ZERO
from . import ledger_core as lc

PROP = "C07"
FIRST = dt.date(1900, 4, 6)
LAST = dt.date(2101, 4, 5)


def plan(tier, seed):
    shards = [{"kind": "dates", "part": i, "parts": 16} for i in range(16)]
    shards += [{"kind": "boundaries", "part": i, "parts": 8, "seed": seed} for i in range(8)]
    k = 160 if tier == "quick" else 1500
    shards += [{"kind": "random", "seed": seed, "shard": i, "n": 60} for i in range(k)]
    shards += [{"kind": "embedded", "seed": seed, "shard": i, "n": 40} for i in range(16 if tier == "quick" else 300)]
    shards += [{"kind": "mcp", "part": i, "parts": 4 if tier == "quick" else 1, "of": 4} for i in range(4)]
    return shards


def run_dates(desc):
    """Every calendar date of tax years 1900/01..2100/01 plus 400 rejected neighbours on each side."""
    cnt = Counter()
    viols = []
    dates = []
    D = FIRST - dt.timedelta(days=400)
    end = LAST + dt.timedelta(days=400)
    i = 0
    while D <= end:
        if i % desc["parts"] == desc["part"]:
            dates.append(D)
        D += dt.timedelta(days=1)
        i += 1
    obs = probe().one({"op": "tax_period", "dates": [iso(x) for x in dates]})["ok"]
    hashes = set()
    for x, o in zip(dates, obs):
        inside = FIRST <= x <= LAST
        if inside:
            cnt["dates_in_range"] += 1
            want = tax_year_of(x)
            if (x.month, x.day) in ((4, 5), (4, 6)):
                cnt["boundary_dates"] += 1
            if x.month == 2 and x.day == 29:
                cnt["leap_days"] += 1
            if o.get("ok") != want:
                viols.append({"clause": "tax-year-of-date", "signature": "tax-year-of-date",
                              "detail": f"{x} -> {o} expected {want}", "case": {"op": "tax_period", "dates": [iso(x)]}})
            want_disp = f"{want}/{(want + 1) % 100:02d}"
            if o.get("display") != want_disp:
                viols.append({"clause": "tax-year-display", "signature": "tax-year-display",
                              "detail": f"{x} -> {o.get('display')} expected {want_disp}",
                              "case": {"op": "tax_period", "dates": [iso(x)]}})
            hashes.add(iso(x))
        else:
            cnt["dates_out_of_range"] += 1
            if "ok" in o:
                viols.append({"clause": "out-of-range-accepted", "signature": "out-of-range-accepted",
                              "detail": f"{x} -> {o}", "case": {"op": "tax_period", "dates": [iso(x)]}})
    return {"evaluations": len(dates), "nontrivial_hashes": hashes, "counters": cnt, "violations": cap_viols(viols),
            "samples": [{"date": iso(dates[0]), "observed": obs[0]}] if desc["part"] == 0 else []}


def gbp(x):
    return [str(x), "GBP"]


def boundary_ledger(Y, rnd_day):
    """Sales on 5 Apr Y (year Y-1), 6 Apr Y, a random day of Y/Y+1, 5 Apr Y+1 and 6 Apr Y+1 (year Y+1)."""
    txs = [{"date": iso(dt.date(Y, 3, 1)), "ticker": "B", "kind": "BUY", "amount": "1000", "price": gbp(1), "fees": gbp(0)}]
    sells = []
    if Y > 1900:
        sells.append((dt.date(Y, 4, 5), Y - 1))
    sells.append((dt.date(Y, 4, 6), Y))
    sells.append((rnd_day, Y))
    sells.append((dt.date(Y + 1, 4, 5), Y))
    if Y < 2100:
        sells.append((dt.date(Y + 1, 4, 6), Y + 1))
    for i, (d_, _) in enumerate(sells):
        txs.append({"date": iso(d_), "ticker": "B", "kind": "SELL", "amount": "10", "price": gbp(2 + i), "fees": gbp(0)})
        txs.append({"date": iso(d_), "ticker": "B", "kind": "DIVIDEND", "total": gbp(7), "tax": gbp(1)})
    return txs, dict((iso(d_), y) for d_, y in sells)


def check_slices(txs, obs_all, obs_years, cnt, viols, case_extra=None):
    """obs_years: {Y: observation of calculate(.., Some(Y))}."""
    if "ok" not in obs_all:
        cnt["all_years_rejected"] += 1
        for Y, o in obs_years.items():
            if "ok" in o:
                viols.append({"clause": "year-accepted-but-all-years-rejected", "signature": "year-accepted-but-all-years-rejected",
                              "detail": f"--year {Y} accepted, all-years: {obs_all.get('err', {}).get('message', '')[:150]}",
                              "case": {"op": "calc", "txs": txs, "year": Y}})
        return
    A = lc.parse_report(obs_all["ok"]["report"])
    ys = [y["start_year"] for y in A["years"]]
    if ys != sorted(ys) or len(set(ys)) != len(ys):
        viols.append({"clause": "years-not-ascending", "signature": "years-not-ascending", "detail": str(ys),
                      "case": {"op": "calc", "txs": txs}})
    for y in A["years"]:
        for dd in y["disposals"]:
            cnt["disposals_checked"] += 1
            if tax_year_of(dd["date"]) != y["start_year"]:
                viols.append({"clause": "disposal-in-wrong-year", "signature": "disposal-in-wrong-year",
                              "detail": f"{dd['ticker']} {dd['date']} listed in {y['period']}",
                              "case": {"op": "calc", "txs": txs}})
    listed = Counter((dd["date"], dd["ticker"]) for y in A["years"] for dd in y["disposals"])
    sold = {(pdate(t["date"]), t["ticker"].upper()) for t in txs if t["kind"] == "SELL"}
    for k in sold:
        cnt["sale_days_looked_up"] += 1
        if listed.get(k, 0) != 1:
            viols.append({"clause": "disposal-not-in-exactly-one-year", "signature": "disposal-not-in-exactly-one-year",
                          "detail": f"{k[1]} sold on {k[0]}: listed {listed.get(k, 0)} times in the all-years report "
                                    f"(years {ys})", "case": {"op": "calc", "txs": txs}})
    amap = {y["start_year"]: y for y in A["years"]}
    for Y, o in obs_years.items():
        cnt["year_filters"] += 1
        if "ok" not in o:
            viols.append({"clause": "year-filter-rejected", "signature": "year-filter-rejected",
                          "detail": f"--year {Y}: {o.get('err', o.get('panic'))}", "case": {"op": "calc", "txs": txs, "year": Y}})
            continue
        S = lc.parse_report(o["ok"]["report"])
        if [y["start_year"] for y in S["years"]] != [Y]:
            viols.append({"clause": "year-filter-wrong-years", "signature": "year-filter-wrong-years",
                          "detail": f"--year {Y} lists {[y['start_year'] for y in S['years']]}",
                          "case": {"op": "calc", "txs": txs, "year": Y}})
            continue
        sy = S["years"][0]
        if Y in amap:
            ref = amap[Y]
            one = {"years": [ref], "holdings": A["holdings"]}
            diffs = lc.compare_reports({"years": [sy], "holdings": S["holdings"]}, one, exact=True,
                                       label=(f"year={Y}", "all-years"))
        else:
            cnt["filters_on_years_without_disposals"] += 1
            diffs = []
            if sy["disposals"] or sy["total_gain"] or sy["total_loss"] or sy["net_gain"]:
                diffs.append(f"--year {Y} has disposals/totals but the all-years report has no such year")
            diffs += lc.compare_reports({"years": [], "holdings": S["holdings"]}, {"years": [], "holdings": A["holdings"]},
                                        exact=True, label=(f"year={Y}", "all-years"))
        if diffs:
            viols.append({"clause": "year-slice-differs", "signature": "year-slice-differs",
                          "detail": "; ".join(diffs[:4]), "case": {"op": "calc", "txs": txs, "year": Y}})


def run_boundaries(desc):
    rng = rng_for(PROP, desc["seed"], "boundaries", desc["part"])
    cnt = Counter()
    viols = []
    hashes = set()
    samples = []
    Ys = [Y for Y in range(1900, 2101) if Y % desc["parts"] == desc["part"]]
    p = probe()
    for Y in Ys:
        rnd = dt.date(Y, 4, 6) + dt.timedelta(days=rng.randint(1, 360))
        txs, want = boundary_ledger(Y, rnd)
        filters = [f for f in (Y - 1, Y, Y + 1) if 1900 <= f <= 2100]
        obs = p.run([lc.calc_case(txs)] + [lc.calc_case(txs, year=f) for f in filters])
        cnt["boundary_years"] += 1
        hashes.add(str(Y))
        if "ok" in obs[0]:
            got = {}
            for y in obs[0]["ok"]["report"]["tax_years"]:
                for dd in y["disposals"]:
                    got[dd["date"]] = y["start_year"]
                # dividends follow the same boundary
                n = sum(1 for d_, yy in want.items() if yy == y["start_year"])
                if lc.fr(y["dividend_income"]) != 7 * n or lc.fr(y["dividend_tax_paid"]) != n:
                    viols.append({"clause": "dividend-year", "signature": "dividend-year",
                                  "detail": f"{y['period']}: dividend income {y['dividend_income']} expected {7 * n}",
                                  "case": {"op": "calc", "txs": txs}})
            if got != want:
                viols.append({"clause": "boundary-day-year", "signature": "boundary-day-year",
                              "detail": f"Y={Y}: got {got} want {want}", "case": {"op": "calc", "txs": txs}})
        else:
            viols.append({"clause": "boundary-ledger-rejected", "signature": "boundary-ledger-rejected",
                          "detail": str(obs[0])[:300], "case": {"op": "calc", "txs": txs}})
        check_slices(txs, obs[0], dict(zip(filters, obs[1:])), cnt, viols)
        if len(samples) < 1 and "ok" in obs[0]:
            samples.append({"Y": Y, "ledger": lc.brief(txs, 12), "disposal_years": got})
    return {"evaluations": len(Ys) * 4, "nontrivial_hashes": hashes, "counters": cnt, "violations": cap_viols(viols),
            "samples": samples}


def run_random(desc):
    rng = rng_for(PROP, desc["seed"], "random", desc["shard"])
    cnt = Counter()
    viols = []
    hashes = set()
    p = probe()
    n_eval = 0
    for _ in range(desc["n"]):
        lo = rng.choice([1901, 1950, 1999, 2015, 2060, 2090])
        opts = Opts(capital=rng.random() < 0.3, splits=True, n_sec=(1, 3), steps=(4, 12), long_gaps_p=0.5,
                    start=(dt.date(lo, 1, 1), dt.date(lo + 6, 1, 1)), last_date=dt.date(2101, 4, 5))
        txs, _ = gen_ledger(rng, opts)
        if any(not (FIRST <= pdate(t["date"]) <= LAST) for t in txs):
            cnt["ledgers_outside_supported_range(skipped)"] += 1
            continue   # the property quantifies over tax years 1900..2100 only
        years = sorted({tax_year_of(pdate(t["date"])) for t in txs})
        filters = sorted({y for y in range(max(1900, years[0] - 1), min(2100, years[-1] + 1) + 1)})
        if len(filters) > 8:
            filters = sorted(rng.sample(filters, 8))
        obs = p.run([lc.calc_case(txs)] + [lc.calc_case(txs, year=f) for f in filters])
        n_eval += 1 + len(filters)
        if "ok" in obs[0] and obs[0]["ok"]["report"]["tax_years"]:
            hashes.add(sha(txs)[:16])
            cnt["reports_with_%d_years" % min(6, len(obs[0]["ok"]["report"]["tax_years"]))] += 1
        check_slices(txs, obs[0], dict(zip(filters, obs[1:])), cnt, viols)
    return {"evaluations": n_eval, "nontrivial_hashes": hashes, "counters": cnt, "violations": cap_viols(viols), "samples": []}


def judge_embedded(txs, filters, cnt, viols, hashes):
    p = probe()
    obs = p.run([lc.calc_case(txs), lc.calc_case(txs, exemptions="embedded")] +
                [lc.calc_case(txs, year=f, exemptions="embedded") for f in filters])
    full, emb, ys_obs = obs[0], obs[1], dict(zip(filters, obs[2:]))
    if "ok" not in full:
        cnt["embedded:ledger_rejected_even_fully_configured"] += 1
        return 2 + len(filters)
    hashes.add(sha(txs)[:16])
    A = lc.parse_report(full["ok"]["report"])
    sold = {(pdate(t["date"]), t["ticker"].upper()) for t in txs if t["kind"] == "SELL"}
    if "ok" in emb:
        cnt["embedded:all_years_report_produced"] += 1
        E = lc.parse_report(emb["ok"]["report"])
        listed = Counter((dd["date"], dd["ticker"]) for y in E["years"] for dd in y["disposals"])
        for k in sold:
            if listed.get(k, 0) != 1:
                viols.append({"clause": "disposal-not-in-exactly-one-year", "signature": "disposal-not-in-exactly-one-year",
                              "detail": f"embedded exemption table: {k[1]} sold on {k[0]} is listed {listed.get(k, 0)} "
                                        f"times (years {[y['start_year'] for y in E['years']]})",
                              "case": {"op": "calc", "txs": txs, "exemptions": "embedded"}})
        diffs = lc.compare_reports(E, A, exact=True, year_totals=False, label=("embedded", "all-configured"))
        if diffs:
            viols.append({"clause": "embedded-report-differs", "signature": "embedded-report-differs",
                          "detail": "; ".join(diffs[:3]), "case": {"op": "calc", "txs": txs, "exemptions": "embedded"}})
    else:
        cnt["embedded:all_years_refused(unconfigured year; C04)"] += 1
    amap = {y["start_year"]: y for y in A["years"]}
    for Y, o in ys_obs.items():
        if "ok" not in o:
            cnt["embedded:year_filter_refused"] += 1
            continue
        cnt["embedded:year_filters_answered"] += 1
        S = lc.parse_report(o["ok"]["report"])
        if [y["start_year"] for y in S["years"]] != [Y]:
            viols.append({"clause": "year-filter-wrong-years", "signature": "year-filter-wrong-years",
                          "detail": f"--year {Y} lists {[y['start_year'] for y in S['years']]}",
                          "case": {"op": "calc", "txs": txs, "year": Y, "exemptions": "embedded"}})
            continue
        ref = [amap[Y]] if Y in amap else []
        got = S["years"] if Y in amap else []
        diffs = lc.compare_reports({"years": got, "holdings": S["holdings"]}, {"years": ref, "holdings": A["holdings"]},
                                   exact=True, year_totals=False, label=(f"year={Y} (embedded table)", "all-years"))
        if Y not in amap and S["years"][0]["disposals"]:
            diffs.append(f"--year {Y} lists disposals but the all-years report has no such year")
        if diffs:
            viols.append({"clause": "year-slice-differs", "signature": "year-slice-differs",
                          "detail": "; ".join(diffs[:4]),
                          "case": {"op": "calc", "txs": txs, "year": Y, "exemptions": "embedded"}})

    return 2 + len(filters)


def run_embedded(desc):
    """Years outside the embedded exemption table. Whether such a ledger is refused is C04's business (an unconfigured
    year is an error); what C07 demands is that *if* a report is produced, every sale is in exactly one year, and that
    a year-restricted report produced under the embedded table shows that year exactly as the all-years report
    computed with every year configured does (exemption-dependent figures aside)."""
    rng = rng_for(PROP, desc["seed"], "embedded", desc["shard"])
    cnt = Counter()
    viols = []
    hashes = set()
    p = probe()
    n_eval = 0
    for _ in range(desc["n"]):
        lo = rng.choice([2008, 2010, 2012, 2013, 2021, 2023, 2024])
        opts = Opts(capital=rng.random() < 0.2, splits=rng.random() < 0.3, n_sec=(1, 2), steps=(4, 10), long_gaps_p=0.5,
                    start=(dt.date(lo, 1, 1), dt.date(lo + 3, 1, 1)), last_date=dt.date(2032, 4, 5))
        txs, _ = gen_ledger(rng, opts)
        years = sorted({tax_year_of(pdate(t["date"])) for t in txs})
        filters = list(range(years[0] - 1, years[-1] + 2))
        if len(filters) > 6:
            filters = sorted(rng.sample(filters, 6))
        n_eval += judge_embedded(txs, filters, cnt, viols, hashes)
    return {"evaluations": n_eval, "nontrivial_hashes": hashes, "counters": cnt, "violations": cap_viols(viols), "samples": []}


def run_mcp(desc):
    """explain_matching derives the tax year of a disposal by its own month/day test: every boundary-day disposal
    (5 and 6 April) of the years taken by this shard must be found and explained in the right year; the server runs
    in a cwd whose config.toml extends the exemption table to 1900-2100."""
    import json
    from ..gen.ledger import render_dsl
    from ..mcpdrv import Session, call, check_history
    cnt = Counter()
    viols = []
    hashes = set()
    years = [Y for Y in range(1900, 2101) if Y % desc["of"] == desc["part"]]
    if desc["parts"] > 1:
        years = years[::3] + [1900, 2100] if desc["part"] == 0 else years[::3]
    sess = Session()
    reqs = []
    rid = 0
    for Y in sorted(set(years)):
        txs, want = boundary_ledger(Y, dt.date(Y, 7, 1))
        text = render_dsl(txs)
        for d_, ty in want.items():
            rid += 1
            reqs.append((call(rid, "explain_matching", {"transactions": text, "disposal_date": d_, "ticker": "b"}), d_, ty))
    for j in range(0, len(reqs), 16):
        sess.send([r for r, _, _ in reqs[j:j + 16]])
    sess.wait_for([r["id"] for r, _, _ in reqs], 180)
    end = sess.finish()
    hv, stats, resp = check_history(sess, end)
    for name, detail in hv:
        viols.append({"clause": "mcp-" + name, "signature": "mcp-" + name, "detail": detail, "case": {"op": "mcp"}})
    for r, d_, ty in reqs:
        a = resp.get(Session.idkey(r["id"]))
        if a is None:
            continue
        cnt["mcp_boundary_disposals_queried"] += 1
        hashes.add(d_)
        try:
            e = json.loads(a["result"]["content"][0]["text"])
            ok = e["disposal_date"] == d_ and e["quantity"] == "10"
        except Exception:
            ok = False
        if not ok:
            viols.append({"clause": "mcp-explain-misses-boundary-day-disposal", "signature": "mcp-explain-misses-boundary-day-disposal",
                          "detail": f"{d_} (tax year {ty}): {json.dumps(a)[:200]}", "case": {"op": "mcp-request", "request": r}})
        else:
            cnt["mcp_boundary_disposals_explained"] += 1
    return {"evaluations": len(reqs), "nontrivial_hashes": hashes, "counters": cnt, "violations": cap_viols(viols), "samples": []}


def run_shard(desc):
    return {"dates": run_dates, "boundaries": run_boundaries, "random": run_random, "mcp": run_mcp,
            "embedded": run_embedded}[desc["kind"]](desc)


def replay(case):
    if case.get("op") == "tax_period":
        o = probe().one(case)
        want = tax_year_of(pdate(case["dates"][0]))
        ok = o["ok"][0].get("ok") == want
        return ([] if ok else [{"clause": "tax-year-of-date", "signature": "tax-year-of-date", "detail": str(o)}]), o
    txs = case["txs"]
    viols = []
    cnt = Counter()
    filters = [case["year"]] if case.get("year") is not None else []
    if case.get("exemptions") == "embedded":
        judge_embedded(txs, filters, cnt, viols, set())
        return viols, {}
    obs = probe().run([lc.calc_case(txs)] + [lc.calc_case(txs, year=f) for f in filters])
    check_slices(txs, obs[0], dict(zip(filters, obs[1:])), cnt, viols)
    return viols, obs[0]


def finalize(total, tier, seed):
    total.setdefault("extra_coverage", {})["exhaustive_subspaces"] = [
        "TaxPeriod::from_date on every calendar date 1900-04-06..2101-04-05 (73,414 dates) plus 400 rejected "
        "neighbours on each side",
        "for every Y in 1900..2100: sales on 5 Apr Y, 6 Apr Y, a random day, 5 Apr Y+1, 6 Apr Y+1 in all-years mode "
        "and under filters Y-1, Y, Y+1",
    ]


THRESHOLDS = {"embedded:year_filters_answered": 500, "embedded:all_years_refused(unconfigured year; C04)": 100, "sale_days_looked_up": 10000, "dates_in_range": 73414, "boundary_years": 201, "year_filters": 1500, "filters_on_years_without_disposals": 100,
              "mcp_boundary_disposals_explained": 200}
RULE = ("exhaustive date enumeration + all 201 year boundaries + seeded multi-year ledgers (years 1900-2100) x every "
        "year filter in range, plus ledgers reaching outside the embedded exemption table run under that table (if a report "
        "is produced every sale must be in exactly one year; year-restricted reports are compared with the fully "
        "configured all-years report); slice equality is exact (Decimal ==); distinct = dates enumerated + boundary years + "
        "distinct random ledgers")
