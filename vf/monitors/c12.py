"""C12 - earlier years are final: appending transactions dated > 30 days later changes nothing earlier."""
from __future__ import annotations

import datetime as dt
from collections import Counter

from ..gen.ledger import Opts, gen_ledger, SecWalk
from ..probe import probe
from ..util import cap_viols, rng_for, sha, iso, d as pdate, tax_year_of, ZERO
from . import ledger_core as lc

PROP = "C12"


def plan(tier, seed):
    k = 160 if tier == "quick" else 2000
    return [{"seed": seed, "shard": i, "n": 120} for i in range(k)] + \
        [{"kind": "year_views", "seed": seed, "shard": i, "n": 60} for i in range(k // 5)]


def gen_suffix(rng, prefix, gap):
    """Well-formed continuation (buys, sells, splits, dividends; no CAPRETURN/ACCUMULATION) starting
    `gap` days after the prefix's last date, in the same securities plus possibly a new one."""
    last = max(pdate(t["date"]) for t in prefix)
    start = last + dt.timedelta(days=gap)
    tickers = sorted({t["ticker"] for t in prefix})
    use = rng.sample(tickers, rng.randint(1, len(tickers)))
    if rng.random() < 0.3:
        use.append("NEWCO")
    out = []
    hostile = rng.random() < 0.15
    for tk in use:
        opts = Opts(capital=False, splits=True, dividends=True, n_sec=(1, 1), steps=(1, 6),
                    last_date=dt.date(2100, 1, 1))
        w = SecWalk(rng, tk, opts, start + dt.timedelta(days=rng.choice([0, 0, 1, 5, 40])))
        # the walk starts with a BUY so its own sells are covered; sells may also reach into the prefix's holding
        w.pos = ZERO
        w.run(rng.randint(*opts.steps))
        txs = w.txs
        if hostile and txs:
            # a suffix that itself fails: an oversell at its end
            txs.append({"date": txs[-1]["date"], "ticker": tk, "kind": "SELL", "amount": "99999999",
                        "price": ["1", "GBP"], "fees": ["0", "GBP"]})
        out += txs
    # also sell some of what the prefix still holds (continuations legitimately do that)
    return out, start, hostile


def compare(prefix, suffix, start, oa, ob, cnt):
    v = []
    if "panic" in oa or "panic" in ob:
        cnt["panic(routed to C15)"] += 1
        return v
    if "ok" not in oa:
        cnt["prefix_rejected(skipped)"] += 1
        return v
    A = lc.parse_report(oa["ok"]["report"])
    if "ok" not in ob:
        msg = ob.get("err", {}).get("message", str(ob))
        # rejected: the error must not be about the prefix period
        import re
        dates = [pdate(x) for x in re.findall(r"\d{4}-\d{2}-\d{2}", msg)]
        cnt["extension_rejected"] += 1
        if not dates or any(x < start for x in dates):
            v.append({"clause": "extension-rejected-because-of-earlier-period",
                      "signature": "extension-rejected-because-of-earlier-period",
                      "detail": f"suffix starts {start}; error: {msg[:200]}"})
        return v
    B = lc.parse_report(ob["ok"]["report"])
    bd = {(d["date"], d["ticker"]): d for d in lc.all_disposals(B)}
    diffs = []
    for d in lc.all_disposals(A):
        cnt["prefix_disposals_compared"] += 1
        e = bd.get((d["date"], d["ticker"]))
        if e is None:
            diffs.append(f"{d['ticker']} {d['date']}: disposal missing after extension")
            continue
        if (d["qty"], d["gross"], d["net"]) != (e["qty"], e["gross"], e["net"]):
            diffs.append(f"{d['ticker']} {d['date']}: qty/gross/net changed")
        la = [(l["rule"], l["acq"], l["qty"], l["cost"], l["gain"]) for l in d["legs"]]
        lb = [(l["rule"], l["acq"], l["qty"], l["cost"], l["gain"]) for l in e["legs"]]
        if la != lb:
            diffs.append(f"{d['ticker']} {d['date']}: legs changed from "
                         f"{[(x[0], str(x[1]), float(x[2]), float(x[3])) for x in la]} to "
                         f"{[(x[0], str(x[1]), float(x[2]), float(x[3])) for x in lb]}")
    first_suffix_ty = tax_year_of(start)
    by = {y["start_year"]: y for y in B["years"]}
    for y in A["years"]:
        if y["start_year"] < first_suffix_ty:
            cnt["closed_years_compared"] += 1
            z = by.get(y["start_year"])
            if z is None:
                diffs.append(f"{y['period']}: year missing after extension")
                continue
            for f in ("total_gain", "total_loss", "net_gain", "disposal_count", "dividend_income",
                      "dividend_tax_paid", "exempt_amount", "taxable_gain", "gross_proceeds"):
                if y[f] != z[f]:
                    diffs.append(f"{y['period']}: {f} {y[f]} -> {z[f]}")
    if diffs:
        v.append({"clause": "earlier-figures-changed", "signature": "earlier-figures-changed",
                  "detail": "; ".join(diffs[:4])})
    return v


def judge_year_views(prefix, suffix, start, views, cnt):
    """views: {Y: (obs of prefix --year Y, obs of prefix+suffix --year Y)} under the embedded exemption table.
    A tax year that ended before the continuation starts is final in its year-restricted view too: if the view of the
    shorter ledger was produced, the view of the grown ledger must be produced and show the same year - whatever tax years
    the continuation reaches (including years the embedded table does not cover)."""
    v = []
    for Y, (oa, ob) in views.items():
        if "panic" in oa or "panic" in ob or "ok" not in oa:
            cnt["year_views_not_produced_for_prefix(skipped)"] += 1
            continue
        cnt["closed_year_views_compared"] += 1
        if "ok" not in ob:
            msg = ob.get("err", {}).get("message", str(ob))
            import re
            dates = [pdate(x) for x in re.findall(r"\d{4}-\d{2}-\d{2}", msg)]
            if dates and all(x >= start for x in dates):
                cnt["year_view_rejected_for_a_failing_continuation"] += 1   # the continuation itself fails (e.g. oversell)
                continue
            v.append({"clause": "year-view-rejected-after-extension", "signature": "year-view-rejected-after-extension",
                      "detail": f"--year {Y} was produced for the shorter ledger; after appending lines from {start} on: {msg[:160]}"})
            continue
        A, B = lc.parse_report(oa["ok"]["report"]), lc.parse_report(ob["ok"]["report"])
        ya = next((y for y in A["years"] if y["start_year"] == Y), None)
        yb = next((y for y in B["years"] if y["start_year"] == Y), None)
        if (ya is None) != (yb is None):
            v.append({"clause": "earlier-figures-changed", "signature": "earlier-year-view-changed",
                      "detail": f"--year {Y}: year present {ya is not None} -> {yb is not None}"})
            continue
        if ya is None:
            continue
        diffs = lc.compare_reports({"years": [ya], "holdings": {}}, {"years": [yb], "holdings": {}}, exact=True,
                                   what=("years",), label=("shorter", "grown"))
        if diffs:
            v.append({"clause": "earlier-figures-changed", "signature": "earlier-year-view-changed",
                      "detail": f"--year {Y}: " + "; ".join(diffs[:3])})
    return v


def run_year_views(desc):
    rng = rng_for(PROP, desc["seed"], "year_views", desc["shard"])
    cnt, viols, hashes, samples = Counter(), [], set(), []
    reqs, meta = [], []
    for _ in range(desc["n"]):
        lo = rng.choice([2015, 2017, 2019, 2021])
        prefix, _f = gen_ledger(rng, Opts(capital=False, splits=rng.random() < 0.4, n_sec=(1, 2), steps=(4, 10),
                                           start=(dt.date(lo, 1, 1), dt.date(lo + 1, 6, 1)), last_date=dt.date(2024, 3, 1)))
        gap = rng.choice([31, 60, 400, 1500, 2500, 2500, 3500])
        suffix, start, hostile = gen_suffix(rng, prefix, gap)
        if not suffix:
            continue
        closed = sorted({tax_year_of(pdate(t["date"])) for t in prefix if tax_year_of(pdate(t["date"])) < tax_year_of(start)})
        if not closed:
            continue
        ys = closed if len(closed) <= 3 else sorted(rng.sample(closed, 3))
        ext = prefix + suffix
        if any(tax_year_of(pdate(t["date"])) > 2025 for t in suffix):
            cnt["continuations_reaching_beyond_the_embedded_table"] += 1
        for Y in ys:
            reqs += [lc.calc_case(prefix, year=Y, exemptions="embedded"), lc.calc_case(ext, year=Y, exemptions="embedded")]
        meta.append((prefix, suffix, start, ys))
    obs = probe().run(reqs)
    k = 0
    for prefix, suffix, start, ys in meta:
        views = {}
        for Y in ys:
            views[Y] = (obs[k], obs[k + 1])
            k += 2
        vs = judge_year_views(prefix, suffix, start, views, cnt)
        hashes.add(sha([prefix, suffix])[:16])
        for x in vs:
            x["case"] = {"op": "year_views", "txs": prefix, "suffix": suffix, "start": iso(start), "years": ys}
            viols.append(x)
    return {"evaluations": len(reqs), "nontrivial_hashes": hashes, "counters": cnt, "violations": cap_viols(viols), "samples": samples}


def run_shard(desc):
    if desc.get("kind") == "year_views":
        return run_year_views(desc)
    rng = rng_for(PROP, desc["seed"], desc["shard"])
    cnt = Counter()
    viols = []
    hashes = set()
    samples = []
    reqs = []
    meta = []
    for _ in range(desc["n"]):
        prefix, _f = gen_ledger(rng, Opts(capital=rng.random() < 0.3, splits=True, n_sec=(1, 3), steps=(3, 10),
                                           last_date=dt.date(2090, 1, 1),
                                           start=(dt.date(1990, 1, 1), dt.date(2024, 1, 1))))
        gap = rng.choice([31, 31, 31, 32, 35, 60, 400])
        suffix, start, hostile = gen_suffix(rng, prefix, gap)
        if not suffix:
            continue
        cnt[f"suffix_gap_{gap if gap <= 35 else 'long'}"] += 1
        if hostile:
            cnt["suffixes_that_fail_themselves"] += 1
        ext = prefix + suffix     # appended, as a user's file grows (line order of the prefix untouched)
        reqs += [lc.calc_case(prefix, front=True), lc.calc_case(ext, front=True)]
        meta.append((prefix, suffix, start))
    obs = probe().run(reqs)
    for i, (prefix, suffix, start) in enumerate(meta):
        oa, ob = obs[2 * i], obs[2 * i + 1]
        vs = compare(prefix, suffix, start, oa, ob, cnt)
        if "ok" in oa and any(y["disposals"] for y in oa["ok"]["report"]["tax_years"]):
            hashes.add(sha([prefix, suffix])[:16])
        for x in vs:
            x["case"] = {"op": "extend", "txs": prefix, "suffix": suffix, "start": iso(start)}
            viols.append(x)
        if len(samples) < 2 and not vs and "ok" in ob and len(prefix) + len(suffix) <= 12:
            samples.append({"prefix": lc.brief(prefix), "suffix": lc.brief(suffix)})
    return {"evaluations": len(reqs), "nontrivial_hashes": hashes, "counters": cnt, "violations": cap_viols(viols), "samples": samples}


def replay(case):
    if case.get("op") == "year_views":
        prefix, suffix, ys = case["txs"], case["suffix"], case["years"]
        reqs = []
        for Y in ys:
            reqs += [lc.calc_case(prefix, year=Y, exemptions="embedded"), lc.calc_case(prefix + suffix, year=Y, exemptions="embedded")]
        obs = probe().run(reqs)
        views = {Y: (obs[2 * i], obs[2 * i + 1]) for i, Y in enumerate(ys)}
        return judge_year_views(prefix, suffix, pdate(case["start"]), views, Counter()), {}
    prefix, suffix = case["txs"], case["suffix"]
    # (minimiser) keep the >30-day separation
    if prefix and suffix and (min(pdate(t["date"]) for t in suffix) - max(pdate(t["date"]) for t in prefix)).days <= 30:
        return [], {}
    oa, ob = probe().run([lc.calc_case(prefix, front=True), lc.calc_case(prefix + suffix, front=True)])
    return compare(prefix, suffix, pdate(case["start"]), oa, ob, Counter()), {"prefix": oa, "extended": ob}


THRESHOLDS = {"closed_year_views_compared": 1000, "continuations_reaching_beyond_the_embedded_table": 60, "prefix_disposals_compared": 10000, "closed_years_compared": 2000, "suffix_gap_31": 800,
              "suffixes_that_fail_themselves": 100}
RULE = ("accepted prefix ledgers x well-formed continuations (buys, sells, splits, dividends in the same and new "
        "securities, some failing by themselves) whose first date is 31 (boundary), 32, 35, 60 or 400 days after the "
        "prefix's last date; every prefix disposal must reappear bit-identical and every tax year that ended before "
        "the suffix must keep its whole summary; distinct by (prefix, suffix) hash")
