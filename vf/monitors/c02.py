"""C02 - share conservation: legs add up to the sale, no acquisition over-matched, closing holding
equals acquisitions minus disposals rescaled by splits; H2 snapshot invariants at every day end."""
from __future__ import annotations

from collections import Counter, defaultdict
from fractions import Fraction

from ..gen.ledger import Opts, gen_ledger
from ..model import hmrc
from ..util import rng_for, fr, d as pdate, ZERO, TOL_FINE
from . import ledger_core as lc

PROP = "C02"
CLASSES = {
    "plain": dict(capital=False, splits=False, n_sec=(1, 3)),
    "splits": dict(capital=False, splits=True, n_sec=(1, 3)),
    "capital": dict(capital=True, splits=True, n_sec=(1, 2)),
    "tiny": dict(capital=False, splits=True, n_sec=(1, 2), qty_dp=6, steps=(6, 16)),
    "manylots": dict(capital=True, splits=True, n_sec=(1, 2), steps=(10, 24), templates_p=0.6),
    "split_on_trade_date": dict(capital=False, splits=True, strict_splits=False, n_sec=(1, 2), steps=(6, 14), templates_p=0.3),
}


def plan(tier, seed):
    k = 10 if tier == "quick" else 600
    return [{"cls": c, "seed": seed, "shard": i, "n": 250} for c in CLASSES for i in range(k)]


def tol(scale):
    return TOL_FINE + Fraction(1, 10 ** 18) * abs(scale)


def oracle(txs, obs, cnt, sets, feats):
    v = []
    if "ok" not in obs:
        cnt["not_accepted"] += 1
        return v
    rep = lc.parse_report(obs["ok"]["report"])
    days, _, _ = hmrc.build_days(txs)
    dmap = {tk: {dy.date: dy for dy in ds} for tk, ds in days.items()}
    matched_to = defaultdict(lambda: ZERO)   # (ticker, acquisition date) -> qty in that day's units
    n_claimants = defaultdict(int)
    for dd in lc.all_disposals(rep):
        tk, date = dd["ticker"], dd["date"]
        cnt["disposals"] += 1
        sold = dmap.get(tk, {}).get(date)
        sold_q = sold.S if sold else ZERO
        legs_q = sum((l["qty"] for l in dd["legs"]), ZERO)
        if abs(legs_q - sold_q) > tol(sold_q):
            v.append({"clause": "legs-vs-sold", "detail": f"{tk} {date}: legs sum {legs_q} but SELL lines total {sold_q}"})
        if abs(dd["qty"] - sold_q) > tol(sold_q):
            v.append({"clause": "disposal-quantity", "detail": f"{tk} {date}: disposal quantity {dd['qty']} vs sold {sold_q}"})
        rules = {l["rule"] for l in dd["legs"] if l["qty"] > lc.DUST}
        if len(rules) >= 2:
            cnt["multi_rule_disposals"] += 1
        for l in dd["legs"]:
            if l["qty"] < -lc.DUST:
                v.append({"clause": "negative-leg", "detail": f"{tk} {date}: leg quantity {l['qty']}"})
            if l["rule"] == "SameDay":
                matched_to[(tk, date)] += l["qty"]
                n_claimants[(tk, date)] += 1
            elif l["rule"] == "BedAndBreakfast" and l["acq"]:
                f = lc.split_factor(days[tk], date, l["acq"])
                if f != 1:
                    cnt["legs_across_split"] += 1
                matched_to[(tk, l["acq"])] += l["qty"] * f
                n_claimants[(tk, l["acq"])] += 1
    for (tk, acq), q in matched_to.items():
        day = dmap.get(tk, {}).get(acq)
        bought = day.A if day else ZERO
        if n_claimants[(tk, acq)] >= 2:
            cnt["acq_days_with_2plus_claimants"] += 1
        if q > bought + tol(bought):
            v.append({"clause": "acquisition-over-matched",
                      "detail": f"{tk}: legs carrying acquisition date {acq} total {float(q)!r} shares (that day's units) "
                                f"but only {bought} were bought that day"})
    # closing holding
    for tk, ds in days.items():
        pos = ZERO
        for dy in ds:
            pos += dy.A - dy.S
            for m in dy.splits:
                pos *= m
                cnt["splits_crossed"] += 1
        got = rep["holdings"].get(tk, (ZERO, ZERO))[0]
        if abs(got - pos) > tol(pos) * 1000:
            v.append({"clause": "closing-holding", "detail": f"{tk}: holding {float(got)!r} expected {float(pos)!r}"})
    for tk in rep["holdings"]:
        if tk not in days and rep["holdings"][tk][0] != 0:
            v.append({"clause": "closing-holding", "detail": f"{tk}: holding without trades"})
    # H2: invariants at every day end
    v += snapshot_invariants(obs.get("snapshots", []), rep, days, cnt)
    return v


def snapshot_invariants(snaps, rep, days, cnt):
    v = []
    s104 = defaultdict(list)  # ticker -> [(date, qty)]
    for dd in lc.all_disposals(rep):
        for l in dd["legs"]:
            if l["rule"] == "Section104":
                s104[dd["ticker"]].append((dd["date"], l["qty"]))
    for sn in snaps:
        if sn.get("phase") != "day":
            continue
        cnt["snapshots_inspected"] += 1
        now = pdate(sn["date"])
        for tk, lots in sn["lots"].items():
            pool_from_lots = ZERO
            for lot in lots:
                o, c, r, p = fr(lot["original"]), fr(lot["consumed"]), fr(lot["reserved"]), fr(lot["in_pool"])
                t = tol(o)
                if min(c, r, p) < -t:
                    v.append({"clause": "hook-lot-negative", "detail": f"{tk} lot {lot['date']} on {now}: {lot}"})
                if c + r + p > o + t:
                    v.append({"clause": "hook-lot-overdrawn",
                              "detail": f"{tk} lot {lot['date']} at end of {now}: consumed {c} + reserved {r} + in_pool {p} > original {o}"})
                ld = pdate(lot["date"])
                # units: lot date -> end of `now` (splits dated `now` have been applied to the pool)
                f = lc.split_factor(days.get(tk, []), ld, now) if ld <= now else 1
                for dy in days.get(tk, []):
                    if dy.date == now:
                        for m in dy.splits:
                            f *= m
                pool_from_lots += p * f
            pool = sn["pools"].get(tk)
            pq = fr(pool["quantity"]) if pool else ZERO
            if pq < -tol(pq):
                v.append({"clause": "hook-pool-negative", "detail": f"{tk} pool {pq} at end of {now}"})
            out = ZERO
            for (dd, q) in s104[tk]:
                if dd <= now:
                    f = lc.split_factor(days.get(tk, []), dd, now)
                    for dy in days.get(tk, []):
                        if dy.date == now:
                            for m in dy.splits:
                                f *= m
                    out += q * f
            # net position (acquired - disposed, kept by the matcher for the holding check) must equal the pool minus
            # what earlier disposals have already claimed from acquisitions still in the future (in today's units)
            posmap = dict((t_, fr(q_)) for t_, q_ in sn.get("positions", []))
            if tk in posmap:
                import datetime as _dt
                claimed = ZERO
                for fc in sn.get("future_consumption", []):
                    if len(fc) >= 4 and fc[2] == tk:
                        bd = pdate(fc[3])
                        f = lc.split_factor(days.get(tk, []), now + _dt.timedelta(days=1), bd) if bd > now else 1
                        claimed += fr(fc[1]) / f
                cnt["hook_position_checks"] += 1
                if abs(posmap[tk] - (pq - claimed)) > tol(pq) * 10 ** 6:
                    v.append({"clause": "hook-position-vs-pool",
                              "detail": f"{tk} end of {now}: net position {float(posmap[tk])!r} != pool {float(pq)!r} - "
                                        f"shares already claimed from future acquisitions {float(claimed)!r}"})
            expect = pool_from_lots - out
            if abs(pq - expect) > tol(expect) * 10 ** 6:
                v.append({"clause": "hook-pool-balance",
                          "detail": f"{tk} end of {now}: pool {float(pq)!r} != lots moved in {float(pool_from_lots)!r} - s104 legs {float(out)!r}"})
    return v


def oracle_split_day(txs, obs, cnt, sets, feats):
    """Labelled class: SPLIT/UNSPLIT may share a date with trades of its security. Whether the split applies before or
    after that day's trades is fixed by no property, so nothing here consults the statute model: the clauses only
    demand that the tool's own views of a holding agree with each other - the report's legs with its disposal
    quantity, the matcher's net position (hook H2) with its Section 104 pool whenever nothing is claimed from future
    acquisitions, and the reported closing holding with the final net position."""
    v = []
    if "ok" not in obs:
        cnt["not_accepted"] += 1
        return v
    if not lc.split_trade_same_day(txs):
        return v
    cnt["split_day_ledgers"] += 1
    rep = lc.parse_report(obs["ok"]["report"])
    # F15 (open): the 30-day look-ahead applies a same-date split iff its line precedes the trade's line, the day loop
    # always applies it after the trades; the two then disagree about quantities. Divergences in a security that has a
    # 30-day leg and a split on one of its trade dates carry that explanation in the signature; others do not.
    split_days = {(t["ticker"], t["date"]) for t in txs if t["kind"] in ("SPLIT", "UNSPLIT")}
    trade_days = {(t["ticker"], t["date"]) for t in txs if t["kind"] in ("BUY", "SELL")}
    bnb = {dd["ticker"] for dd in lc.all_disposals(rep) for l in dd["legs"] if l["rule"] == "BedAndBreakfast"}
    f15 = {tk for (tk, d_) in split_days & trade_days if tk in bnb}

    def sfx(tk):
        return ":30-day-leg-in-a-security-split-on-a-trade-date" if tk in f15 else ""
    for dd in lc.all_disposals(rep):
        legs_q = sum((l["qty"] for l in dd["legs"]), ZERO)
        if abs(legs_q - dd["qty"]) > tol(dd["qty"]):
            v.append({"clause": "legs-vs-disposal-quantity", "detail": f"{dd['ticker']} {dd['date']}: legs sum {legs_q}, disposal {dd['qty']}"})
    last_pos = {}
    for sn in obs.get("snapshots", []):
        if sn.get("phase") != "day":
            continue
        cnt["snapshots_inspected"] += 1
        claimed_tk = {fc[2] for fc in sn.get("future_consumption", []) if len(fc) >= 4 and fr(fc[1]) != 0}
        for tk, q in sn.get("positions", []):
            last_pos[tk] = fr(q)
            if tk in claimed_tk:
                continue
            pool = sn["pools"].get(tk)
            pq = fr(pool["quantity"]) if pool else ZERO
            cnt["split_day_position_checks"] += 1
            if abs(fr(q) - pq) > tol(pq) * 10 ** 6:
                v.append({"clause": "hook-position-vs-pool", "signature": "hook-position-vs-pool" + sfx(tk),
                          "detail": f"{tk} end of {sn['date']}: net position {float(fr(q))!r} != Section 104 pool {float(pq)!r} "
                                    f"(nothing claimed from future acquisitions)"})
    for tk, pos in last_pos.items():
        got = rep["holdings"].get(tk, (ZERO, ZERO))[0]
        if abs(got - pos) > tol(pos) * 10 ** 6:
            v.append({"clause": "closing-holding-vs-net-position", "signature": "closing-holding-vs-net-position" + sfx(tk),
                      "detail": f"{tk}: reported holding {float(got)!r}, matcher's final net position {float(pos)!r}"})
    return v


def sample_fn(txs, o):
    if "ok" not in o:
        return None
    return {"ledger": lc.brief(txs), "holdings": o["ok"]["report"]["holdings"],
            "day_end_snapshots": len(o.get("snapshots", []))}


def run_shard(desc):
    rng = rng_for(PROP, desc["seed"], desc["cls"], desc["shard"])
    opts = Opts(**CLASSES[desc["cls"]])
    cases = [gen_ledger(rng, opts) for _ in range(desc["n"])]
    return lc.run_ledger_cases(cases, oracle_split_day if desc["cls"] == "split_on_trade_date" else oracle,
                               record=True, sample_fn=sample_fn)


def replay(case):
    from ..probe import probe
    o = probe().one(lc.calc_case(case["txs"], record=True, front=True))
    vs = (oracle_split_day if case.get("cls") == "split_on_trade_date" or lc.split_trade_same_day(case["txs"]) else oracle)(
        case["txs"], o, Counter(), {}, set())
    for x in vs:
        x.setdefault("signature", x["clause"])
    return vs, o


THRESHOLDS = {"split_day_position_checks": 2000, "multi_rule_disposals": 1000, "acq_days_with_2plus_claimants": 300, "snapshots_inspected": 5000, "hook_position_checks": 5000,
              "legs_across_split": 100}
RULE = ("seeded shape-directed ledgers in five classes (plain, splits, capital events, tiny quantities, many "
        "same-day lots); conservation equations between input lines and reported legs/holdings plus H2 snapshot "
        "invariants at every processed day; plus a labelled class with SPLIT/UNSPLIT on trade dates judged only by the "
        "tool's own views agreeing with each other (net position vs pool vs reported holding); non-trivial = accepted ledger with >=1 disposal, distinct by ledger hash")
