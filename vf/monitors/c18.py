"""C18 - Schwab conversion keeps every CGT-relevant row and emits valid, chronological DSL."""
from __future__ import annotations

import datetime as dt
import json
import re
from collections import Counter, defaultdict
from fractions import Fraction

from ..model import schwab as sm
from ..probe import probe
from ..util import cap_viols, rng_for, sha, fr, d as pdate, ZERO
from . import ledger_core as lc

PROP = "C18"


def plan(tier, seed):
    k = 96 if tier == "quick" else 800
    shards = [{"kind": "lib", "seed": seed, "shard": i, "n": 150} for i in range(k)]
    shards += [{"kind": "cli", "seed": seed, "shard": i, "n": 10} for i in range(8 if tier == "quick" else 120)]
    return shards


def parsed_multiset(txs):
    trades = Counter()
    divs = defaultdict(lambda: [ZERO, ZERO])
    other = []
    for t in txs:
        if t["kind"] in ("BUY", "SELL"):
            trades[(t["kind"], pdate(t["date"]), t["ticker"], fr(t["amount"]), (fr(t["price"][0]), t["price"][1]),
                    (fr(t["fees"][0]), t["fees"][1] if fr(t["fees"][0]) else "USD"))] += 1
        elif t["kind"] == "DIVIDEND":
            k = (pdate(t["date"]), t["ticker"])
            divs[k][0] += fr(t["total"][0])
            divs[k][1] += fr(t["tax"][0])
            if t["total"][1] != "USD" or (fr(t["tax"][0]) and t["tax"][1] != "USD"):
                other.append(("non-USD dividend", t))
        else:
            other.append(("unexpected kind", t))
    return trades, {k: tuple(v) for k, v in divs.items()}, other


def check_output(rows, awards, ok, cnt):
    """ok = harness observation body of a successful conversion (with reparse)."""
    v = []
    exp = sm.expected(rows, awards)
    rp = ok.get("reparse", {})
    content = ok["cgt_content"]
    hostile = any(("\n" in (r.get("Description") or "") or "\r" in (r.get("Description") or "")) or
                  "\n" in (r.get("Symbol") or "") for r in rows)
    if "ok" not in rp:
        sig = "output-is-not-valid-dsl" + (":free-text-with-line-break" if hostile else "")
        v.append({"clause": "output-is-not-valid-dsl", "signature": sig,
                  "detail": f"{str(rp.get('err', {}).get('message'))[:250]}"})
        return v
    txs = rp["ok"]
    trades, divs, other = parsed_multiset(txs)
    if other:
        v.append({"clause": "unexpected-transaction-in-output", "signature": "unexpected-transaction-in-output",
                  "detail": str(other[:2])[:250]})
    want = Counter()
    for (kind, d, sym, q, p, f), n in exp["trades"].items():
        want[(kind, d, sym, q, (p, "USD"), (f, "USD"))] += n
    got = Counter(trades)
    # RSU buys: admissible price sets
    for (dep, sym, q, (vest, fmvs)) in exp["rsu"]:
        hit = next((k for k in got if k[0] == "BUY" and k[1] == vest and k[2] == sym and k[3] == q and k[4][0] in fmvs
                    and k[5][0] == 0 and got[k] > 0), None)
        if hit:
            got[hit] -= 1
            cnt["rsu_rows_matched"] += 1
        else:
            v.append({"clause": "rsu-row-not-converted", "signature": "rsu-row-not-converted",
                      "detail": f"deposit {dep} {sym} x{q}: expected BUY dated {vest} @ {[str(x) for x in fmvs]}"})
    got = +got
    if got != want:
        extra = list((got - want).elements())[:2]
        missing = list((want - got).elements())[:2]
        # a transaction no row produced (e.g. injected through free text)?
        inj = any(e[2] not in {r["Symbol"].strip().upper() for r in rows} for e in extra)
        sig = "trade-lines-differ-from-rows" + (":line-injected-through-free-text" if inj else "")
        v.append({"clause": "trade-lines-differ-from-rows", "signature": sig,
                  "detail": f"extra in output: {[(e[0], str(e[1]), e[2], str(e[3]), str(e[4][0])) for e in extra]} "
                            f"missing from output: {[(e[0], str(e[1]), e[2], str(e[3]), str(e[4][0])) for e in missing]}"})
    cnt["trade_rows"] += sum(want.values())
    cnt["cancel_rows"] += exp["cancels"]
    # dividends and withholding
    for k, tot in exp["dividends"].items():
        cnt["dividend_groups"] += 1
        g = divs.get(k)
        if g is None or g[0] != tot:
            v.append({"clause": "dividend-total-changed", "signature": "dividend-total-changed",
                      "detail": f"{k[1]} {k[0]}: rows total {tot}, output {g}"})
            continue
        wt = exp["taxes"].get(k, ZERO)
        if g[1] != wt:
            v.append({"clause": "withholding-total-changed", "signature": "withholding-total-changed",
                      "detail": f"{k[1]} {k[0]}: withheld {wt}, output TAX {g[1]}"})
        elif wt:
            cnt["dividend_groups_with_withholding"] += 1
    for k in divs:
        if k not in exp["dividends"]:
            v.append({"clause": "dividend-without-row", "signature": "dividend-without-row", "detail": f"{k}"})
    # chronological order
    ds = [t["date"] for t in txs]
    if ds != sorted(ds):
        v.append({"clause": "output-not-chronological", "signature": "output-not-chronological", "detail": str(ds)[:200]})
    # accounting of every other row
    unattached = [k for k in exp["taxes"] if k not in exp["dividends"]]
    silent_tax_rows_no_symbol = exp["tax_rows"] - 0  # informational
    must = exp["non_cgt"] + exp["splits"] + exp["unknown"] + exp["blank_dividend_rows"] + len(unattached)
    nosym = exp["tax_rows_without_symbol_or_amount"]
    skipped = ok["skipped_count"]
    n_comments = sum(1 for ln in content.split("\n") if ln.startswith("# SKIPPED:"))
    if exp["unknown"] and (len(ok["warnings"]) < exp["unknown"]):
        v.append({"clause": "unknown-row-not-surfaced", "signature": "unknown-row-not-surfaced",
                  "detail": f"{exp['unknown']} unknown-action rows, {n_comments} SKIPPED comments, {len(ok['warnings'])} warnings"})
    if skipped < must:
        what = []
        if exp["blank_dividend_rows"]:
            what.append("dividend-row-with-blank-amount")
        if unattached:
            what.append("withholding-without-same-day-dividend")
        sig = "row-disappears-silently" + (":" + "+".join(what) if what and skipped >= must - exp["blank_dividend_rows"] - len(unattached) else "")
        v.append({"clause": "row-disappears-silently", "signature": sig,
                  "detail": f"rows that are neither converted nor merged: {must} (non-CGT {exp['non_cgt']}, splits {exp['splits']}, "
                            f"unknown {exp['unknown']}, blank dividends {exp['blank_dividend_rows']}, withholding without dividend "
                            f"{[(str(k[0]), k[1]) for k in unattached][:3]}); skipped_count={skipped}, warnings={len(ok['warnings'])}"})
    else:
        cnt["other_rows_accounted"] += must
        if nosym and skipped < must + nosym:
            v.append({"clause": "row-disappears-silently", "signature": "row-disappears-silently:withholding-row-without-symbol",
                      "detail": f"{nosym} NRA tax row(s) with a blank Symbol are neither attached to a dividend, nor counted as "
                                f"skipped, nor surfaced (skipped_count={skipped}, expected at least {must + nosym})"})
    if exp["unmatched_cancels"] and not any("Cancel Sell" in w for w in ok["warnings"]):
        v.append({"clause": "unmatched-cancel-not-surfaced", "signature": "unmatched-cancel-not-surfaced", "detail": ""})
    if hostile:
        cnt["exports_with_line_breaks_in_free_text"] += 1
    return v


def order_view(ok):
    rp = ok.get("reparse", {})
    if "ok" not in rp:
        return None
    trades, divs, other = parsed_multiset(rp["ok"])
    comments = Counter(ln for ln in ok["cgt_content"].split("\n") if ln.startswith("#") and not ln.startswith("# Converted:"))
    return (trades, divs, comments, Counter(ok["warnings"]), ok["skipped_count"])


def run_lib(desc):
    rng = rng_for(PROP, desc["seed"], "lib", desc["shard"])
    cnt = Counter()
    viols = []
    hashes = set()
    samples = []
    p = probe()
    cases = [sm.gen_export(rng) for _ in range(desc["n"])]
    reqs = []
    shuffled = []
    for rows, awards in cases:
        aj = json.dumps(awards) if awards else None
        reqs.append({"op": "convert", "transactions_json": sm.export_json(rows), "awards_json": aj, "reparse": True})
        r2 = list(rows)
        mode = rng.choice(["reverse", "shuffle"])
        r2.reverse() if mode == "reverse" else rng.shuffle(r2)
        shuffled.append(r2)
        reqs.append({"op": "convert", "transactions_json": sm.export_json(r2), "awards_json": aj, "reparse": True})
    obs = p.run(reqs)
    for i, (rows, awards) in enumerate(cases):
        o, o2 = obs[2 * i], obs[2 * i + 1]
        cnt["exports"] += 1
        cnt["rows"] += len(rows)
        for r in rows:
            cnt["action_" + r["Action"]] += 1
        hashes.add(sha(rows)[:16])
        case = {"op": "convert", "rows": rows, "awards": awards}
        exp = sm.expected(rows, awards)
        if "panic" in o:
            viols.append({"clause": "converter-panic", "signature": "converter-panic", "detail": str(o["panic"])[:200], "case": case})
            continue
        if exp["failure"]:
            cnt["exports_expected_to_fail_for_missing_fmv"] += 1
            if "ok" in o:
                viols.append({"clause": "missing-fmv-accepted", "signature": "missing-fmv-accepted", "detail": str(exp["failure"]), "case": case})
            continue
        if "err" in o:
            viols.append({"clause": "well-formed-export-refused", "signature": "well-formed-export-refused:" + o["err"]["kind"],
                          "detail": o["err"]["message"][:250], "case": case})
            continue
        vs = check_output(rows, awards, o["ok"], cnt)
        # row-order independence
        if "ok" in o2:
            a, b = order_view(o["ok"]), order_view(o2["ok"])
            cnt["row_order_pairs"] += 1
            if a is not None and b is not None and a != b:
                which = [n for n, x, y in zip(("trades", "dividends", "comments", "warnings", "skipped_count"), a, b) if x != y]
                vs.append({"clause": "output-depends-on-row-order", "signature": "output-depends-on-row-order:" + "+".join(which),
                           "detail": f"differs in {which}"})
        else:
            vs.append({"clause": "row-order-changes-acceptance", "signature": "row-order-changes-acceptance",
                       "detail": str(o2.get("err"))[:200]})
        for x in vs:
            x["case"] = case
            viols.append(x)
        if not vs and len(samples) < 2 and len(rows) <= 6:
            samples.append({"rows": rows, "output": o["ok"]["cgt_content"].split("\n")[3:], "warnings": o["ok"]["warnings"],
                            "skipped_count": o["ok"]["skipped_count"]})
    # chunking: date-disjoint chunks converted separately and reported together == whole
    for rows, awards in cases[:desc["n"] // 3]:
        exp = sm.expected(rows, awards)
        if exp["failure"]:
            continue
        dates = sorted({sm.row_date(r["Date"]) for r in rows})
        if len(dates) < 2:
            continue
        cuts = sorted(rng.sample(dates[1:], min(len(dates) - 1, rng.randint(1, 3))))
        chunks = [[] for _ in range(len(cuts) + 1)]
        for r in rows:
            d_ = sm.row_date(r["Date"])
            chunks[sum(1 for c in cuts if d_ >= c)].append(r)
        aj = json.dumps(awards) if awards else None
        outs = p.run([{"op": "convert", "transactions_json": sm.export_json(c), "awards_json": aj} for c in [rows] + chunks])
        if any("ok" not in o for o in outs):
            if "ok" in outs[0]:
                viols.append({"clause": "chunk-refused", "signature": "chunk-refused",
                              "detail": str([o.get("err") for o in outs if "err" in o][:1])[:200],
                              "case": {"op": "convert", "rows": rows, "awards": awards}})
            continue
        whole = outs[0]["ok"]["cgt_content"]
        parts = "\n".join(o["ok"]["cgt_content"] for o in outs[1:])
        ra, rb = p.run([lc.calc_case(dsl=whole, fx="bundled"), lc.calc_case(dsl=parts, fx="bundled")])
        cnt["chunkings"] += 1
        if ("ok" in ra) != ("ok" in rb):
            if "err" in ra and ra["err"]["kind"] == "ParseError":
                continue   # invalid DSL is reported by the validity clause
            viols.append({"clause": "chunked-report-acceptance-differs", "signature": "chunked-report-acceptance-differs",
                          "detail": f"whole {str(ra.get('err'))[:100]} chunks {str(rb.get('err'))[:100]}",
                          "case": {"op": "convert", "rows": rows, "awards": awards}})
        elif "ok" in ra:
            diffs = lc.compare_reports(lc.parse_report(ra["ok"]["report"]), lc.parse_report(rb["ok"]["report"]),
                                       exact=False, leg_gains=False, label=("whole", "chunks"))
            if diffs:
                viols.append({"clause": "chunked-report-differs", "signature": "chunked-report-differs",
                              "detail": "; ".join(diffs[:3]), "case": {"op": "convert", "rows": rows, "awards": awards}})
            else:
                cnt["chunked_reports_equal"] += 1
    return {"evaluations": len(reqs), "nontrivial_hashes": hashes, "counters": cnt, "violations": cap_viols(viols), "samples": samples}


def run_cli(desc):
    """`cgt-tool convert schwab ... | cgt-tool report` on generated exports."""
    from ..clidrv import Sandbox, ALL_YEARS_TOML
    rng = rng_for(PROP, desc["seed"], "cli", desc["shard"])
    cnt = Counter()
    viols = []
    hashes = set()
    for _ in range(desc["n"]):
        rows, awards = sm.gen_export(rng, hostile=rng.random() < 0.5)
        exp = sm.expected(rows, awards)
        with Sandbox(ALL_YEARS_TOML) as sb:
            sb.write("t.json", sm.export_json(rows))
            args = ["convert", "schwab", "t.json", "--output", "out.cgt"]
            if awards:
                sb.write("a.json", json.dumps(awards))
                args += ["--awards", "a.json"]
            r = sb.run(args)
            r2 = sb.run(["report", "out.cgt", "--format", "json"]) if r["exit"] == 0 else None
            r3 = sb.run(["parse", "out.cgt"]) if r["exit"] == 0 else None
        cnt["cli_conversions"] += 1
        hashes.add(sha(rows)[:16])
        case = {"op": "convert", "rows": rows, "awards": awards}
        if exp["failure"]:
            if r["exit"] == 0:
                viols.append({"clause": "cli-missing-fmv-accepted", "signature": "cli-missing-fmv-accepted", "detail": "", "case": case})
            continue
        if r["exit"] != 0:
            viols.append({"clause": "cli-well-formed-export-refused", "signature": "cli-well-formed-export-refused",
                          "detail": r["stderr"][:200], "case": case})
            continue
        hostile = any("\n" in (x.get("Description") or "") or "\r" in (x.get("Description") or "") or "\n" in (x.get("Symbol") or "") for x in rows)
        if r3["exit"] != 0:
            viols.append({"clause": "output-is-not-valid-dsl", "signature": "output-is-not-valid-dsl" + (":free-text-with-line-break" if hostile else ""),
                          "detail": "cli parse: " + r3["stderr"][:200], "case": case})
            continue
        cnt["cli_outputs_parse"] += 1
        if r2["exit"] != 0 and "exceeds holding" not in r2["stderr"] and "no prior acquisitions" not in r2["stderr"] \
                and "Missing FX" not in r2["stderr"]:
            viols.append({"clause": "cli-report-on-converted-output-failed", "signature": "cli-report-on-converted-output-failed",
                          "detail": r2["stderr"][:200], "case": case})
        elif r2["exit"] == 0:
            cnt["cli_reports_on_converted_output"] += 1
    return {"evaluations": cnt["cli_conversions"], "nontrivial_hashes": hashes, "counters": cnt, "violations": cap_viols(viols), "samples": []}


def run_shard(desc):
    return run_lib(desc) if desc["kind"] == "lib" else run_cli(desc)


def replay(case):
    aj = json.dumps(case["awards"]) if case.get("awards") else None
    o = probe().one({"op": "convert", "transactions_json": sm.export_json(case["rows"]), "awards_json": aj, "reparse": True})
    vs = []
    if "ok" in o:
        vs = check_output(case["rows"], case.get("awards"), o["ok"], Counter())
        for x in vs:
            x.setdefault("signature", x["clause"])
    return vs, o


THRESHOLDS = {"exports": 1500, "trade_rows": 3000, "cancel_rows": 100, "dividend_groups_with_withholding": 200,
              "rsu_rows_matched": 300, "row_order_pairs": 1000, "chunked_reports_equal": 150,
              "exports_with_line_breaks_in_free_text": 200, "action_Stock Split": 50, "other_rows_accounted": 500}
RULE = ("generated Schwab exports (all supported and several unsupported actions, $/comma/negative/blank/-- amount "
        "spellings, plain and 'as of' dates, duplicate rows, cancels with and without replacement sells, hostile "
        "free text incl. line breaks and DSL-looking text, awards files) checked row by row against an independent "
        "expected-lines model through the real parser; plus reversed/shuffled row order and date-disjoint chunkings; "
        "distinct by export hash")
