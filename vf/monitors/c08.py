"""C08 - foreign amounts convert at the HMRC rate of their own month, or the run fails; overrides are local."""
from __future__ import annotations

import copy
import datetime as dt
import json
from collections import Counter
from fractions import Fraction

from ..gen.ledger import Opts, gen_ledger, render_dsl
from ..model import hmrc, fx as fxm
from ..probe import probe
from ..util import cap_viols, rng_for, sha, fr, dstr, iso, d as pdate, ZERO, TOL_10DP, TOL_FINE
from . import ledger_core as lc
from . import c01

PROP = "C08"
MONTH_NAMES = ["Jan", "Feb", "Mar", "Apr", "May", "Jun", "Jul", "Aug", "Sep", "Oct", "Nov", "Dec"]
_codes = None


def known_codes():
    global _codes
    if _codes is None:
        _codes = {c["code"] for c in probe().one({"op": "currencies"})["ok"]}
    return _codes


def table_codes():
    return sorted({c for (c, _, _) in fxm.bundled() if c in known_codes() and c != "GBP"})


def plan(tier, seed):
    k = 32 if tier == "quick" else 500
    shards = []
    for kind in ("model", "twin", "missing", "folder"):
        shards += [{"kind": kind, "seed": seed, "shard": i, "n": 120} for i in range(k)]
    shards += [{"kind": "cli", "seed": seed, "shard": i, "n": 12} for i in range(6 if tier == "quick" else 150)]
    shards += [{"kind": "cli_vs_lib", "seed": seed, "shard": i, "n": 15} for i in range(16 if tier == "quick" else 200)]
    shards += [{"kind": "exact", "seed": seed, "shard": i, "n": 300} for i in range(8 if tier == "quick" else 200)]
    shards += [{"kind": "table", "seed": seed, "shard": 0}]
    shards += [{"kind": "mcp", "seed": seed, "shard": i, "n": 150} for i in range(2 if tier == "quick" else 30)]
    return shards


def fx_opts(rng, codes):
    cur = rng.sample(codes, rng.randint(1, 4))
    lo = dt.date(rng.randint(2015, 2024), rng.randint(1, 12), rng.choice([1, 15, 27, 28]))
    return Opts(capital=rng.random() < 0.5, splits=rng.random() < 0.4, n_sec=(1, 3), steps=(3, 10),
                currencies=cur, start=(lo, lo + dt.timedelta(days=200)), last_date=dt.date(2026, 3, 25),
                gbp_explicit_p=0.3)


def foreign_fields(txs, cnt, sets):
    for t in txs:
        for f in ("price", "fees", "total", "tax"):
            if f in t and t[f][1] != "GBP" and fr(t[f][0]) != 0:
                cnt[f"converted_{t['kind']}_{f}"] += 1
                d_ = pdate(t["date"])
                sets.setdefault("currency_months", set()).add(f"{t[f][1]}:{d_.year}-{d_.month:02d}")
        if t["kind"] in ("BUY", "SELL") and t["price"][1] != t["fees"][1] and fr(t["fees"][0]) != 0:
            cnt["lines_price_and_fees_in_different_currencies"] += 1


def month_straddle(txs):
    ds = sorted({pdate(t["date"]) for t in txs})
    return any((b - a).days <= 3 and (a.month != b.month) for a, b in zip(ds, ds[1:]))


def judge_model(txs, o, conv, cnt, sets, hashes):
    """One foreign-currency ledger against the exact model run on independently converted amounts."""
    viols = []
    case = {"op": "calc", "txs": txs, "fx": "bundled"}
    try:
        model = hmrc.evaluate(txs, conv)
    except fxm.MissingRate as e:
        cnt["ledgers_needing_a_missing_rate"] += 1
        if "err" not in o or o["err"]["kind"] != "MissingFxRate":
            viols.append({"clause": "missing-rate-not-reported", "signature": "missing-rate-not-reported",
                          "detail": f"model needs {e}; tool: {str(o)[:200]}", "case": case})
        return viols
    if "err" in o and o["err"]["kind"] == "MissingFxRate":
        viols.append({"clause": "rate-reported-missing-but-present", "signature": "rate-reported-missing-but-present",
                      "detail": o["err"]["message"], "case": case})
        return viols
    if "ok" not in o or model["uncovered"]:
        cnt["rejected_for_other_reasons"] += 1
        return viols
    foreign_fields(txs, cnt, sets)
    if month_straddle(txs):
        cnt["ledgers_straddling_a_month_end"] += 1
    hashes.add(sha(txs)[:16])
    rep = lc.parse_report(o["ok"]["report"])
    capital = lc.has_kind(txs, "CAPRETURN", "ACCUMULATION")
    tool = {(d["date"], d["ticker"]): d for d in lc.all_disposals(rep)}
    for tk, r in model["ident"].items():
        for w in r["disposals"]:
            t = tool.get((w["date"], tk))
            if t is None:
                viols.append({"clause": "disposal-missing", "signature": "disposal-missing", "detail": f"{tk} {w['date']}", "case": case})
                continue
            cnt["disposals_compared"] += 1
            bad = []
            if not lc.close(t["gross"], w["gross"], TOL_10DP, w["gross"]):
                bad.append(f"gross {float(t['gross'])!r} vs {float(w['gross'])!r}")
            if not lc.close(t["net"], w["net"], TOL_10DP, w["net"]):
                bad.append(f"net {float(t['net'])!r} vs {float(w['net'])!r}")
            if not capital:
                tc = sum((l["cost"] for l in t["legs"]), ZERO)
                if not lc.close(tc, w["cost"], TOL_FINE * 10 ** 4, w["cost"] * 10 ** 3):
                    bad.append(f"cost {float(tc)!r} vs {float(w['cost'])!r}")
            if bad:
                viols.append({"clause": "converted-figures-differ", "signature": "converted-figures-differ",
                              "detail": f"{tk} {w['date']}: " + "; ".join(bad), "case": case})
    # dividends
    for y in rep["years"]:
        inc, tax = model["dividends"].get(y["start_year"], (ZERO, ZERO))
        if not lc.close(y["dividend_income"], inc, TOL_FINE * 1000, inc) or not lc.close(y["dividend_tax_paid"], tax, TOL_FINE * 1000, tax):
            viols.append({"clause": "converted-dividends-differ", "signature": "converted-dividends-differ",
                          "detail": f"{y['period']}: {float(y['dividend_income'])!r} vs {float(inc)!r}", "case": case})

    return viols


def run_model(desc):
    """Foreign ledger vs the exact model run on amounts converted by the independent rate table."""
    rng = rng_for(PROP, desc["seed"], "model", desc["shard"])
    codes = table_codes()
    table = fxm.Table(known_codes())
    conv = fxm.converter(table)
    cnt = Counter()
    sets = {}
    viols = []
    hashes = set()
    samples = []
    cases = [gen_ledger(rng, fx_opts(rng, codes))[0] for _ in range(desc["n"])]
    obs = probe().run([lc.calc_case(t, fx="bundled") for t in cases])
    for txs, o in zip(cases, obs):
        viols += judge_model(txs, o, conv, cnt, sets, hashes)
        if len(samples) < 1 and len(txs) <= 8:
            samples.append({"ledger": lc.brief(txs)})
    return {"evaluations": len(cases), "nontrivial_hashes": hashes, "counters": cnt, "violations": cap_viols(viols),
            "samples": samples, "sets": sets}


def judge_twin(base, foreign, og, of, on, cnt, hashes):
    """A foreign-currency ledger against its literally pre-converted GBP twin (and the twin with no rate table)."""
    viols = []
    case = {"op": "twin", "txs": foreign, "gbp_twin": base}
    cnt["twins"] += 1
    if ("ok" in og) != ("ok" in of):
        viols.append({"clause": "twin-acceptance-differs", "signature": "twin-acceptance-differs",
                      "detail": f"GBP: {str(og.get('err'))[:120]} foreign: {str(of.get('err'))[:120]}", "case": case})
        return viols
    # GBP ledger: identical with and without a rate table ("GBP amounts are used unchanged")
    if ("ok" in og) != ("ok" in on) or ("ok" in og and og["ok"]["report"]["tax_years"] != on["ok"]["report"]["tax_years"]):
        viols.append({"clause": "gbp-ledger-changed-by-rate-table", "signature": "gbp-ledger-changed-by-rate-table",
                      "detail": "GBP-only ledger differs between fx=bundled and fx=none", "case": case})
    if "ok" not in og:
        return viols
    hashes.add(sha(foreign)[:16])
    A, B = lc.parse_report(og["ok"]["report"]), lc.parse_report(of["ok"]["report"])
    diffs = lc.compare_reports(A, B, exact=False, leg_gains=True, label=("gbp", "foreign"))
    if diffs:
        viols.append({"clause": "foreign-ledger-differs-from-preconverted-twin",
                      "signature": "foreign-ledger-differs-from-preconverted-twin",
                      "detail": "; ".join(diffs[:3]), "case": case})

    return viols


def run_twin(desc):
    """Literal twin: every foreign amount is an integer multiple of its month's rate (scaled), so the GBP twin
    is an exact decimal; both reports must be equal figure by figure."""
    rng = rng_for(PROP, desc["seed"], "twin", desc["shard"])
    codes = table_codes()
    table = fxm.Table(known_codes())
    cnt = Counter()
    viols = []
    hashes = set()
    samples = []
    reqs = []
    meta = []
    for _ in range(desc["n"]):
        base, _f = gen_ledger(rng, Opts(capital=rng.random() < 0.4, splits=rng.random() < 0.4, n_sec=(1, 2), steps=(3, 9),
                                        start=(dt.date(2015, 1, 5), dt.date(2025, 6, 1)), last_date=dt.date(2026, 3, 25)))
        foreign = []
        ok = True
        for t in base:
            n = copy.deepcopy(t)
            d_ = pdate(t["date"])
            for f in ("price", "fees", "total", "tax"):
                if f in t and rng.random() < 0.7:
                    code = rng.choice(codes)
                    rs = table.rates(code, d_.year, d_.month)
                    if not rs or len(set(rs)) > 1:
                        continue
                    g = fr(t[f][0])
                    try:
                        n[f] = [dstr(g * rs[0]), code]
                    except ValueError:
                        ok = False
            foreign.append(n)
        if not ok:
            continue
        if any(len(x[f][0].replace(".", "")) > 24 for x in foreign for f in ("price", "fees", "total", "tax") if f in x):
            continue
        reqs += [lc.calc_case(base, fx="bundled"), lc.calc_case(foreign, fx="bundled"), lc.calc_case(base)]
        meta.append((base, foreign))
    obs = probe().run(reqs)
    for i, (base, foreign) in enumerate(meta):
        og, of, on = obs[3 * i], obs[3 * i + 1], obs[3 * i + 2]
        vs_ = judge_twin(base, foreign, og, of, on, cnt, hashes)
        viols += vs_
        if not vs_ and "ok" in og and len(samples) < 1 and len(base) <= 6:
            samples.append({"foreign": lc.brief(foreign), "gbp_twin": lc.brief(base)})
    return {"evaluations": len(reqs), "nontrivial_hashes": hashes, "counters": cnt, "violations": cap_viols(viols), "samples": samples}


def run_missing(desc):
    """A needed rate that is absent -> MissingFxRate naming the currency and the transaction's own month."""
    rng = rng_for(PROP, desc["seed"], "missing", desc["shard"])
    codes = table_codes()
    table = fxm.Table(known_codes())
    months = set(fxm.bundled_months())
    cnt = Counter()
    viols = []
    hashes = set()
    samples = []
    reqs = []
    meta = []
    absent_codes = sorted(c for c in known_codes() if c not in {x for (x, _, _) in fxm.bundled()} and c != "GBP")
    for _ in range(desc["n"]):
        base, _f = gen_ledger(rng, Opts(capital=False, splits=False, n_sec=(1, 2), steps=(2, 6),
                                        start=(dt.date(2015, 2, 1), dt.date(2025, 6, 1)), last_date=dt.date(2026, 3, 25),
                                        currencies=rng.sample(codes, 2)))
        mode = rng.choice(["gap_2015_12", "after_last", "before_first", "code_not_in_table", "no_cache"])
        txs = copy.deepcopy(base)
        i = rng.randrange(len(txs))
        t = txs[i]
        f = rng.choice([x for x in ("price", "fees", "total", "tax") if x in t] or ["price"])
        if f not in t:
            continue
        amt = t[f][0] if fr(t[f][0]) != 0 else "1.5"
        code = rng.choice(codes)
        if mode == "gap_2015_12":
            newd = dt.date(2015, 12, rng.randint(1, 31))
        elif mode == "after_last":
            newd = dt.date(2026, rng.randint(4, 12), rng.randint(1, 28))
        elif mode == "before_first":
            newd = dt.date(rng.randint(2000, 2014), rng.randint(1, 12), rng.randint(1, 28))
        elif mode == "code_not_in_table":
            newd = pdate(t["date"])
            code = rng.choice(absent_codes)
        else:
            newd = pdate(t["date"])
        # a standalone security so coverage is not an issue
        extra = {"date": iso(newd), "ticker": "MISS", "kind": "BUY", "amount": "1", "price": ["1", "GBP"], "fees": ["0", "GBP"]}
        fld = rng.choice(["price", "fees"])
        extra[fld] = [amt if fr(amt) != 0 else "2", code]
        if rng.random() < 0.4:
            extra = {"date": iso(newd), "ticker": "MISS", "kind": "DIVIDEND", "total": ["5", "GBP"], "tax": ["0", "GBP"]}
            fld = rng.choice(["total", "tax"])
            extra[fld] = ["3.25", code]
        # make everything else convertible: keep base as is (its currencies exist for its months unless 2015-12)
        txs = [x for x in base] + [extra]
        reqs.append(lc.calc_case(txs, fx=None if mode == "no_cache" else "bundled"))
        meta.append((txs, mode, code, newd, fld))
    obs = probe().run(reqs)
    conv = fxm.converter(table)
    for (txs, mode, code, newd, fld), o in zip(meta, obs):
        case = {"op": "calc", "txs": txs, "fx": None if mode == "no_cache" else "bundled"}
        # which (currency, month) pairs does the model find missing?
        missing = set()
        for t in txs:
            d_ = pdate(t["date"])
            for f in ("price", "fees", "total", "tax"):
                if f in t and t[f][1] != "GBP":
                    if mode == "no_cache" or not table.rates(t[f][1], d_.year, d_.month):
                        missing.add((t[f][1], d_.year, d_.month))
        if not missing:
            continue
        cnt["missing_rate_cases_" + mode] += 1
        hashes.add(sha(txs)[:16])
        if "err" not in o or o["err"]["kind"] != "MissingFxRate":
            viols.append({"clause": "missing-rate-not-reported", "signature": "missing-rate-not-reported:" + mode,
                          "detail": f"{sorted(missing)[:3]} absent but tool: {str(o.get('err') or 'accepted')[:200]}", "case": case})
            continue
        e = o["err"]
        if (e["currency"], e["year"], e["month"]) not in missing:
            viols.append({"clause": "missing-rate-error-names-wrong-currency-or-month",
                          "signature": "missing-rate-error-names-wrong-currency-or-month",
                          "detail": f"error names {e['currency']} {e['year']}-{e['month']:02d}; absent: {sorted(missing)[:4]}", "case": case})
        elif f"{e['currency']}" not in e["message"] or f"{e['year']}-{e['month']:02d}" not in e["message"]:
            viols.append({"clause": "missing-rate-message", "signature": "missing-rate-message", "detail": e["message"], "case": case})
        elif len(samples) < 1:
            samples.append({"mode": mode, "ledger": lc.brief(txs, 8), "error": e["message"]})
    return {"evaluations": len(reqs), "nontrivial_hashes": hashes, "counters": cnt, "violations": cap_viols(viols), "samples": samples}


def xml_file(year, month, rates, period=None, dup=False):
    last = (dt.date(year + (month == 12), month % 12 + 1, 1) - dt.timedelta(days=1)).day
    period = period or f"01/{MONTH_NAMES[month - 1]}/{year} to {last}/{MONTH_NAMES[month - 1]}/{year}"
    body = "".join(
        f"  <exchangeRate>\n    <countryName>Land</countryName>\n    <countryCode>LL</countryCode>\n"
        f"    <currencyName>Unit </currencyName>\n    <currencyCode>{c}</currencyCode>\n    <rateNew>{r}</rateNew>\n  </exchangeRate>\n"
        for c, r in rates)
    return f'<?xml version="1.0"?>\n<exchangeRateMonthList Period="{period}">\n{body}</exchangeRateMonthList>\n'


def gen_folder(rng, codes):
    """-> (files, label). files: [{"name","xml","mtime"}]"""
    label = rng.choice(["override", "override", "add_month", "mislabelled", "nonpositive", "empty", "bad_name"])
    files = []
    months = fxm.bundled_months()
    if label == "empty":
        return [], label
    n = rng.randint(1, 3)
    used = set()
    for i in range(n):
        if label == "add_month" and i == 0:
            ym = rng.choice([(2015, 12), (2026, 4), (2026, 9), (2014, 6)])
        else:
            ym = rng.choice(months)
        if ym in used:
            continue
        used.add(ym)
        cs = rng.sample(codes, rng.randint(1, 3))
        rates = [(c, dstr(Fraction(rng.randint(1, 99999), rng.choice([10, 100, 1000, 10000])))) for c in cs]
        name = rng.choice(["{y}-{m:02d}.xml", "monthly_xml_{y}-{m:02d}.xml"]).format(y=ym[0], m=ym[1])
        if label == "bad_name" and i == 0:
            # the name states a month in a spelling the loader does not accept (and, half of the time, a month
            # other than the Period's): the file must be rejected, not loaded under its Period
            ny, nm = (ym[0], ym[1]) if rng.random() < 0.5 else (ym[0], ym[1] % 12 + 1)
            name = rng.choice(["{y}_{m:02d}.xml", "{y}-{m:02d}_final.xml", "hmrc_{y}-{m:02d}_v2.xml", "{y}{m:02d}.xml",
                               "rates.xml", "{y}-{m:02d}-01.xml" if False else "{y}.{m:02d}.xml", "{y}-13.xml", "{y}-00.xml"]).format(y=ny, m=nm)
        period = None
        if label == "mislabelled" and i == 0:
            oy, om = rng.choice([(ym[0], ym[1] % 12 + 1), (ym[0] + 1, ym[1])])
            lastd = 28
            period = f"01/{MONTH_NAMES[om - 1]}/{oy} to {lastd}/{MONTH_NAMES[om - 1]}/{oy}"
        if label == "nonpositive" and i == 0:
            bad = rng.choice(["0", "-1.25", "0.0000"])
            how = rng.random()
            if how < 0.4:
                rates[0] = (rates[0][0], bad)
            elif how < 0.8:
                # HMRC files list a currency once per country: the bad value sits on a *repeated* row of a currency whose
                # first row is fine (every row has to be validated, not only the first of its currency)
                c0 = rates[0][0]
                rates = rates + [(c0, bad)] if rng.random() < 0.5 else [rates[0]] + rates[1:] + [(c0, rates[0][1]), (c0, bad)]
            else:
                rates[-1] = (rates[-1][0], bad)
        files.append({"name": name, "xml": xml_file(ym[0], ym[1], rates, period), "mtime": 1700000000 + i})
    return files, label


def run_folder(desc):
    """Rate-folder configurations at the library boundary: table lookups (locality) and conversions."""
    rng = rng_for(PROP, desc["seed"], "folder", desc["shard"])
    codes = table_codes()
    cnt = Counter()
    viols = []
    hashes = set()
    samples = []
    p = probe()
    n_eval = 0
    for _ in range(desc["n"] // 4):
        files, label = gen_folder(rng, codes)
        table = fxm.Table(known_codes(), files)
        spec = {"folder": files}
        # queries: every overridden key, its neighbours (other month / other currency), random keys
        qs = set()
        for (c, y, m) in list(table.over)[:10]:
            qs.add((c, y, m))
            qs.add((c, y + (m == 12), m % 12 + 1))
            qs.add((c, y - (m == 1), (m - 2) % 12 + 1))
            qs.add((rng.choice(codes), y, m))
        for _q in range(10):
            y, m = rng.choice(fxm.bundled_months())
            qs.add((rng.choice(codes), y, m))
        qs = sorted(qs)
        o = p.one({"op": "fx_get", "fx": spec, "queries": [list(q) for q in qs]})
        n_eval += 1
        cnt["folders_" + label] += 1
        hashes.add(sha(files)[:16])
        case = {"op": "fx_get", "fx": spec, "label": label}
        if table.folder_error:
            if "err" not in o:
                viols.append({"clause": "bad-rates-file-accepted", "signature": "bad-rates-file-accepted:" + label,
                              "detail": f"model rejects ({table.folder_error}) but the loader accepted the folder", "case": case})
            else:
                cnt["bad_folders_rejected"] += 1
            continue
        if "err" in o:
            viols.append({"clause": "good-rates-folder-rejected", "signature": "good-rates-folder-rejected",
                          "detail": str(o["err"])[:200], "case": case})
            continue
        for q, got in zip(qs, o["ok"]):
            want = table.rates(*q)
            cnt["table_lookups"] += 1
            if q in table.over:
                cnt["lookups_of_overridden_keys"] += 1
            if want is None:
                if got is not None:
                    viols.append({"clause": "rate-present-but-should-be-absent", "signature": "rate-present-but-should-be-absent",
                                  "detail": f"{q}: {got}", "case": case})
            elif got is None or Fraction(got) not in want:
                viols.append({"clause": "override-not-local", "signature": "override-not-local",
                              "detail": f"{q}: table gives {got}, expected {[str(w) for w in want]} "
                                        f"({'overridden' if q in table.over else 'bundled'})", "case": case})
        # a conversion through the overridden table
        if table.over:
            (c, y, m) = rng.choice(sorted(table.over))
            txs = [{"date": iso(dt.date(y, m, rng.randint(1, 28))), "ticker": "OV", "kind": "BUY", "amount": "10",
                    "price": ["12.5", c], "fees": ["1", c]},
                   {"date": iso(dt.date(y, m, 28)), "ticker": "OV", "kind": "SELL", "amount": "10",
                    "price": ["20", c], "fees": ["0", "GBP"]}]
            oc = p.one(lc.calc_case(txs, fx=spec))
            n_eval += 1
            r = table.over[(c, y, m)][0]
            if "ok" in oc:
                got = fr(oc["ok"]["report"]["tax_years"][0]["disposals"][0]["gross_proceeds"]) if oc["ok"]["report"]["tax_years"] else None
                want = Fraction(200) / r
                cnt["conversions_at_override_rate"] += 1
                if got is None or abs(got - want) > TOL_10DP:
                    viols.append({"clause": "conversion-ignores-override", "signature": "conversion-ignores-override",
                                  "detail": f"{c} {y}-{m:02d} override {r}: gross {got} expected {float(want)!r}",
                                  "case": {"op": "calc", "txs": txs, "fx": spec}})
            elif (y, m) in [(2014, 6)] or True:
                if "err" in oc and oc["err"]["kind"] != "UnsupportedExemptionYear":
                    viols.append({"clause": "conversion-with-override-failed", "signature": "conversion-with-override-failed",
                                  "detail": str(oc.get("err"))[:200], "case": {"op": "calc", "txs": txs, "fx": spec}})
        if len(samples) < 1 and files:
            samples.append({"label": label, "files": [f["name"] for f in files], "overridden_keys": [list(k) for k in list(table.over)[:4]]})
    return {"evaluations": n_eval, "nontrivial_hashes": hashes, "counters": cnt, "violations": cap_viols(viols), "samples": samples}


def run_cli(desc):
    """The same folder configurations through `cgt-tool report --fx-folder`."""
    from ..clidrv import run_cli_report
    rng = rng_for(PROP, desc["seed"], "cli", desc["shard"])
    codes = table_codes()
    cnt = Counter()
    viols = []
    hashes = set()
    samples = []
    for _ in range(desc["n"]):
        files, label = gen_folder(rng, codes)
        table = fxm.Table(known_codes(), files)
        if table.over:
            (c, y, m) = rng.choice(sorted(table.over))
        else:
            c = rng.choice(codes)
            y, m = rng.choice(fxm.bundled_months())
        txs = [{"date": iso(dt.date(y, m, 3)), "ticker": "OV", "kind": "BUY", "amount": "10", "price": ["12.5", c], "fees": ["1", c]},
               {"date": iso(dt.date(y, m, 27)), "ticker": "OV", "kind": "SELL", "amount": "10", "price": ["20", c], "fees": ["0", "GBP"]}]
        r = run_cli_report(render_dsl(txs), fmt="json", fx_folder=[(f["name"], f["xml"]) for f in files])
        cnt["cli_runs_" + label] += 1
        hashes.add(sha([files, txs])[:16])
        case = {"op": "cli-fx", "txs": txs, "files": files, "label": label}
        if r["timeout"]:
            cnt["cli_timeouts(inconclusive)"] += 1
            continue
        if table.folder_error:
            if r["exit"] == 0:
                viols.append({"clause": "cli-bad-rates-file-accepted", "signature": "cli-bad-rates-file-accepted:" + label,
                              "detail": table.folder_error, "case": case})
            elif r["stdout"]:
                viols.append({"clause": "cli-partial-output", "signature": "cli-partial-output", "detail": "stdout on failure", "case": case})
            else:
                cnt["cli_bad_folders_rejected"] += 1
            continue
        rs = table.rates(c, y, m)
        if not rs:
            if r["exit"] == 0:
                viols.append({"clause": "cli-missing-rate-not-reported", "signature": "cli-missing-rate-not-reported",
                              "detail": f"{c} {y}-{m}", "case": case})
            elif c not in r["stderr"] or f"{y}-{m:02d}" not in r["stderr"]:
                viols.append({"clause": "cli-missing-rate-message", "signature": "cli-missing-rate-message",
                              "detail": r["stderr"][:200], "case": case})
            continue
        if r["exit"] != 0:
            viols.append({"clause": "cli-good-folder-rejected", "signature": "cli-good-folder-rejected",
                          "detail": r["stderr"][:200], "case": case})
            continue
        rep = json.loads(r["stdout"])
        got = Fraction(rep["tax_years"][0]["disposals"][0]["gross_proceeds"])
        wants = {(Fraction(200) / x) for x in rs}
        cnt["cli_conversions_checked"] += 1
        if (c, y, m) in table.over:
            cnt["cli_conversions_at_override_rate"] += 1
        if not any(abs(got - w) <= Fraction(1, 100) for w in wants):
            viols.append({"clause": "cli-conversion-rate", "signature": "cli-conversion-rate",
                          "detail": f"{c} {y}-{m:02d}: gross {got} expected ~{[float(w) for w in wants]}", "case": case})
        elif len(samples) < 1 and table.over:
            samples.append({"cli": "report in.cgt --format json --fx-folder fx", "files": [f["name"] for f in files],
                            "currency_month": f"{c} {y}-{m:02d}", "gross_proceeds": str(got)})
    return {"evaluations": desc["n"], "nontrivial_hashes": hashes, "counters": cnt, "violations": cap_viols(viols), "samples": samples}


def exec_cli_vs_lib(txs):
    """The same foreign-currency ledger through the real `cgt-tool report --format json` (bundled rates, all-years
    config) and through the library: acceptance, tax years and holdings must agree; a refusal for a missing rate must be
    one in both."""
    from ..clidrv import run_cli_report
    viols = []
    o = probe().one(dict(lc.calc_case(txs, fx="bundled"), outputs=["json"]))
    r = run_cli_report(render_dsl(txs), fmt="json")
    if r["timeout"] or "panic" in o:
        return viols, "skipped"
    case = {"op": "cli-vs-lib", "txs": txs}
    if ("ok" in o) != (r["exit"] == 0):
        viols.append({"clause": "cli-acceptance-differs-from-library", "signature": "cli-acceptance-differs-from-library",
                      "detail": f"library: {'accepted' if 'ok' in o else o.get('err', {}).get('message', '')[:120]} | "
                                f"cli exit {r['exit']}: {r['stderr'][:160]}", "case": case})
        return viols, "judged"
    if "ok" not in o:
        if o["err"]["kind"] == "MissingFxRate" and "Missing FX rate" not in r["stderr"]:
            viols.append({"clause": "cli-missing-rate-message", "signature": "cli-missing-rate-message",
                          "detail": r["stderr"][:200], "case": case})
        return viols, "both_refused"
    want, got = json.loads(o["ok"]["json"]), json.loads(r["stdout"])
    if want["tax_years"] != got["tax_years"] or want["holdings"] != got["holdings"]:
        viols.append({"clause": "cli-report-differs-from-library", "signature": "cli-report-differs-from-library",
                      "detail": "tax_years/holdings of `report --format json` differ from the library's JSON", "case": case})
    return viols, "judged"


def run_cli_vs_lib(desc):
    """Front-end gating of the rate table: foreign amounts on any subset of line kinds (only trades, only dividends /
    accumulations / capital returns, only fees...), so a CLI that decides from some of the lines whether rates are
    needed is observed."""
    rng = rng_for(PROP, desc["seed"], "cli_vs_lib", desc["shard"])
    codes = table_codes()
    cnt, viols, hashes, samples = Counter(), [], set(), []
    for _ in range(desc["n"]):
        o_ = fx_opts(rng, codes)
        o_.capital = True
        o_.dividends = True
        txs = gen_ledger(rng, o_)[0]
        keep = rng.choice(["all", "events_only", "trades_only", "fees_only", "one_line"])
        txs = copy.deepcopy(txs)
        foreign_lines = [t for t in txs if any(f in t and t[f][1] != "GBP" for f in ("price", "fees", "total", "tax"))]
        one = rng.choice(foreign_lines) if foreign_lines else None
        for t in txs:
            for f in ("price", "fees", "total", "tax"):
                if f not in t or t[f][1] == "GBP":
                    continue
                is_trade = t["kind"] in ("BUY", "SELL")
                drop = ((keep == "events_only" and is_trade) or (keep == "trades_only" and not is_trade)
                        or (keep == "fees_only" and f not in ("fees", "tax")) or (keep == "one_line" and t is not one))
                if drop:
                    t[f] = [t[f][0], "GBP"]
        if keep == "events_only" and not any(t["kind"] not in ("BUY", "SELL") and any(f in t and t[f][1] != "GBP" for f in ("total", "tax", "fees")) for t in txs):
            ev_date = max(pdate(t["date"]) for t in txs) + dt.timedelta(days=3)
            if ev_date <= dt.date(2026, 3, 25):
                txs.append({"date": iso(ev_date), "ticker": txs[0]["ticker"], "kind": "DIVIDEND",
                            "total": ["12.34", rng.choice(codes)], "tax": ["1.2", "GBP"]})
        vs, how = exec_cli_vs_lib(txs)
        cnt["cli_vs_lib_" + how] += 1
        cnt["cli_vs_lib_foreign_on_" + keep] += 1
        hashes.add(sha(txs)[:16])
        viols += vs
        if not vs and how == "judged" and len(samples) < 1 and len(txs) <= 8:
            samples.append({"foreign_amounts_on": keep, "ledger": lc.brief(txs), "result": "cli == library"})
    return {"evaluations": 2 * desc["n"], "nontrivial_hashes": hashes, "counters": cnt, "violations": cap_viols(viols), "samples": samples}


def run_exact(desc):
    """Conversion is division by the month's rate: an amount that is an exact multiple of the rate must come back as
    exactly that multiple (a Decimal division of exactly divisible operands is exact). One DIVIDEND line per case; the
    report's dividend income and tax at full precision are the converted amounts themselves."""
    rng = rng_for(PROP, desc["seed"], "exact", desc["shard"])
    codes = table_codes()
    table = fxm.Table(known_codes())
    cnt, viols, hashes = Counter(), [], set()
    cases = []
    for _ in range(desc["n"]):
        code = rng.choice(codes)
        y, m = rng.choice(fxm.bundled_months())
        rs = table.rates(code, y, m)
        if not rs or len(set(rs)) > 1:
            continue
        g1 = Fraction(rng.randint(1, 10 ** rng.randint(2, 9)), 10 ** rng.choice([0, 2, 3, 5]))
        g2 = Fraction(rng.randint(0, 99999), 1000)
        try:
            a1, a2 = dstr(g1 * rs[0]), dstr(g2 * rs[0])
        except ValueError:
            continue
        if len(a1.replace(".", "")) > 22 or len(a2.replace(".", "")) > 22:
            continue
        D_ = iso(dt.date(y, m, rng.randint(1, 28)))
        # a sterling same-day trade puts a disposal into the dividend's tax year (the all-years report lists years with disposals)
        txs = [{"date": D_, "ticker": "DIV", "kind": "BUY", "amount": "1", "price": ["1", "GBP"], "fees": ["0", "GBP"]},
               {"date": D_, "ticker": "DIV", "kind": "SELL", "amount": "1", "price": ["1", "GBP"], "fees": ["0", "GBP"]},
               {"date": D_, "ticker": "DIV", "kind": "DIVIDEND", "total": [a1, code], "tax": [a2, code]}]
        cases.append((txs, g1, g2, code, (y, m), rs[0]))
    obs = probe().run([lc.calc_case(t, fx="bundled") for t, *_ in cases])
    for (txs, g1, g2, code, ym, rate), o in zip(cases, obs):
        if "ok" not in o:
            viols.append({"clause": "exact-multiple-refused", "signature": "exact-multiple-refused", "detail": str(o.get("err"))[:200],
                          "case": {"op": "exact", "txs": txs, "expect": [str(g1), str(g2)]}})
            continue
        cnt["exact_multiples_converted"] += 1
        hashes.add(sha(txs)[:16])
        ys = o["ok"]["report"]["tax_years"]
        got1 = sum((fr(y_["dividend_income"]) for y_ in ys), ZERO)
        got2 = sum((fr(y_["dividend_tax_paid"]) for y_ in ys), ZERO)
        if got1 != g1 or got2 != g2:
            viols.append({"clause": "conversion-is-not-division-by-the-rate", "signature": "conversion-is-not-division-by-the-rate",
                          "detail": f"{txs[-1]['total'][0]} {code} in {ym[0]}-{ym[1]:02d} at {rate}: exactly {g1} expected, got {got1}"
                                    f" (tax: {g2} expected, got {got2})",
                          "case": {"op": "exact", "txs": txs, "expect": [str(g1), str(g2)]}})
    return {"evaluations": len(cases), "nontrivial_hashes": hashes, "counters": cnt, "violations": cap_viols(viols), "samples": []}


def run_table(desc):
    """Whole bundled table: every (currency, month) the tool holds equals the independent parse."""
    cnt = Counter()
    viols = []
    keys = sorted(k for k in fxm.bundled() if k[0] in known_codes())
    o = probe().one({"op": "fx_get", "fx": "bundled", "queries": [list(k) for k in keys]})
    hashes = set()
    for k, got in zip(keys, o["ok"]):
        cnt["bundled_keys_compared"] += 1
        want = fxm.bundled()[k]
        hashes.add(":".join(map(str, k)))
        if got is None or Fraction(got) not in want:
            viols.append({"clause": "bundled-rate-differs", "signature": "bundled-rate-differs",
                          "detail": f"{k}: tool {got} files {[str(w) for w in want]}", "case": {"op": "fx_get", "key": list(k)}})
    if o.get("len") != len(keys):
        # the cache holds one entry per key; the model's key set must have the same size
        viols.append({"clause": "bundled-table-size", "signature": "bundled-table-size",
                      "detail": f"tool cache {o.get('len')} entries, independent parse {len(keys)} keys",
                      "case": {"op": "fx_get"}})
    return {"evaluations": len(keys), "nontrivial_hashes": set(list(hashes)[:2000]), "counters": cnt, "violations": cap_viols(viols),
            "samples": [{"key": list(keys[0]), "tool_rate": o["ok"][0]}]}


def run_mcp(desc):
    """MCP get_fx_rate equals the table (and fails for absent keys)."""
    from ..mcpdrv import Session, call, check_history
    rng = rng_for(PROP, desc["seed"], "mcp", desc["shard"])
    codes = table_codes()
    table = fxm.Table(known_codes())
    months = fxm.bundled_months()
    cnt = Counter()
    viols = []
    hashes = set()
    sess = Session()
    reqs = []
    for i in range(desc["n"]):
        c = rng.choice(codes)
        y, m = rng.choice(months + [(2015, 12), (2026, 4), (2014, 12), (2030, 1)])
        spell = rng.choice([c, c.lower(), c.title()])
        reqs.append((call(i + 1, "get_fx_rate", {"currency": spell, "year": y, "month": m}), (c, y, m)))
    for j in range(0, len(reqs), 25):
        sess.send([r for r, _ in reqs[j:j + 25]])
    sess.wait_for([r["id"] for r, _ in reqs], 120)
    end = sess.finish()
    hv, stats, resp = check_history(sess, end)
    for name, detail in hv:
        viols.append({"clause": "mcp-" + name, "signature": "mcp-" + name, "detail": detail, "case": {"op": "mcp"}})
    for r, (c, y, m) in reqs:
        a = resp.get(Session.idkey(r["id"]))
        if a is None:
            continue
        cnt["mcp_fx_queries"] += 1
        hashes.add(f"{c}:{y}-{m}")
        want = table.rates(c, y, m)
        try:
            got = json.loads(a["result"]["content"][0]["text"])
        except Exception:
            got = None
        if want:
            if got is None or Fraction(got["rate"]) not in want or got["currency"] != c or got["period"] != f"{y}-{m:02d}":
                viols.append({"clause": "mcp-rate-differs-from-table", "signature": "mcp-rate-differs-from-table",
                              "detail": f"{c} {y}-{m:02d}: {json.dumps(a)[:160]} expected {[str(w) for w in want]}",
                              "case": {"op": "mcp-request", "request": r}})
            else:
                cnt["mcp_fx_rates_equal_table"] += 1
        elif got is not None:
            viols.append({"clause": "mcp-rate-invented", "signature": "mcp-rate-invented",
                          "detail": f"{c} {y}-{m:02d} absent from the table but answered {got}", "case": {"op": "mcp-request", "request": r}})
        else:
            cnt["mcp_fx_absent_keys_refused"] += 1
    return {"evaluations": len(reqs), "nontrivial_hashes": hashes, "counters": cnt, "violations": cap_viols(viols), "samples": []}


def run_shard(desc):
    if desc["kind"] == "mcp":
        return run_mcp(desc)
    return {"model": run_model, "twin": run_twin, "missing": run_missing, "folder": run_folder, "cli": run_cli,
            "cli_vs_lib": run_cli_vs_lib, "exact": run_exact, "table": run_table}[desc["kind"]](desc)


def replay(case):
    if case.get("op") == "calc" and case.get("fx") == "bundled":
        o = probe().one(lc.calc_case(case["txs"], fx="bundled"))
        conv = fxm.converter(fxm.Table(known_codes()))
        return judge_model(case["txs"], o, conv, Counter(), {}, set()), o
    if case.get("op") == "exact":
        o = probe().one(lc.calc_case(case["txs"], fx="bundled"))
        vs = []
        if "ok" in o:
            ys = o["ok"]["report"]["tax_years"]
            got = [sum((fr(y_[k]) for y_ in ys), ZERO) for k in ("dividend_income", "dividend_tax_paid")]
            if [str(x) for x in got] != [str(Fraction(e)) for e in case["expect"]]:
                vs.append({"clause": "conversion-is-not-division-by-the-rate", "signature": "conversion-is-not-division-by-the-rate",
                           "detail": f"expected {case['expect']}, got {[str(x) for x in got]}"})
        return vs, o
    if case.get("op") == "cli-vs-lib":
        vs, how = exec_cli_vs_lib(case["txs"])
        return vs, {"how": how}
    if case.get("op") == "twin":
        og, of, on = probe().run([lc.calc_case(case["gbp_twin"], fx="bundled"), lc.calc_case(case["txs"], fx="bundled"),
                                  lc.calc_case(case["gbp_twin"])])
        return judge_twin(case["gbp_twin"], case["txs"], og, of, on, Counter(), set()), {"gbp": og, "foreign": of}
    if case.get("op") == "calc":
        o = probe().one(lc.calc_case(case["txs"], fx=case.get("fx")))
        return [], dict(o, note="rate-folder / no-table cases: re-run the shard")
    return [], {"note": "rate-folder, CLI and MCP cases: re-run the shard"}


def finalize(total, tier, seed):
    total.setdefault("extra_coverage", {})["exhaustive_subspaces"] = [
        "every (currency, month) key of the bundled table compared with an independent parse of the XML files"]


THRESHOLDS = {"exact_multiples_converted": 1500, "cli_vs_lib_judged": 100, "cli_vs_lib_foreign_on_events_only": 20, "converted_BUY_price": 100, "converted_BUY_fees": 100, "converted_SELL_price": 100, "converted_SELL_fees": 100,
              "converted_DIVIDEND_total": 100, "converted_DIVIDEND_tax": 50, "converted_CAPRETURN_total": 30,
              "converted_ACCUMULATION_total": 30, "twins": 500, "ledgers_straddling_a_month_end": 100,
              "lookups_of_overridden_keys": 200, "bad_folders_rejected": 50, "cli_conversions_at_override_rate": 10,
              "bundled_keys_compared": 15000, "missing_rate_cases_gap_2015_12": 50, "missing_rate_cases_after_last": 50,
              "missing_rate_cases_code_not_in_table": 50, "missing_rate_cases_no_cache": 50, "mcp_fx_rates_equal_table": 150,
              "mcp_fx_absent_keys_refused": 5}
RULE = ("ledgers mixing GBP with currencies drawn from every code of the bundled table (price and fees may differ in "
        "currency), months 2015-01..2026-03 and beyond; (1) vs exact model on independently converted amounts, (2) "
        "literal pre-converted GBP twins, (3) absent rates (gap month 2015-12, before/after the table, code not in "
        "table, no table), (4) generated rate folders (override, add month, mislabelled, non-positive, empty) at the "
        "loader and through --fx-folder, (5) the whole bundled table; distinct by ledger/folder hash")
