"""C06 - independence from line order, file split and fill splitting (metamorphic, tool vs tool)."""
from __future__ import annotations

import copy
import json
import re
from collections import Counter, defaultdict
from fractions import Fraction

from ..gen.ledger import Opts, gen_ledger, render_dsl
from ..model import hmrc
from ..probe import probe
from ..util import cap_viols, rng_for, sha, fr, dstr, d as pdate, ZERO
from . import ledger_core as lc

PROP = "C06"
CLASSES = {
    "multi": dict(capital=True, splits=True, n_sec=(2, 4), steps=(4, 12), templates_p=0.5),
    "single_dense": dict(capital=False, splits=True, n_sec=(1, 1), steps=(8, 18), templates_p=0.6),
    "plain": dict(capital=False, splits=False, n_sec=(1, 3)),
    # CAPRETURN/ACCUMULATION may share a date with trades of the security: whatever the convention for such a
    # day is, the report must not depend on the order of its lines
    "event_on_trade_date": dict(capital=True, splits=True, strict_capital=False, n_sec=(1, 2), steps=(5, 12),
                                templates_p=0.5, sell_p=0.4),
    # labelled class: a SPLIT/UNSPLIT may share a date with a BUY/SELL of the same security (finding F15)
    "split_on_trade_date": dict(capital=False, splits=True, strict_splits=False, n_sec=(1, 2), steps=(4, 10), sell_p=0.4),
}


def plan(tier, seed):
    k = 10 if tier == "quick" else 400
    shards = [{"kind": "lib", "cls": c, "seed": seed, "shard": i, "n": 120} for c in CLASSES for i in range(k)]
    kc = 12 if tier == "quick" else 200
    shards += [{"kind": "cli", "seed": seed, "shard": i, "n": 16} for i in range(kc)]
    return shards


# ---- variants -------------------------------------------------------------------------------

def permute(rng, txs, mode):
    t = list(txs)
    if mode == "reverse":
        t.reverse()
    elif mode == "shuffle":
        rng.shuffle(t)
    elif mode == "by_ticker":
        t.sort(key=lambda x: (x["ticker"], rng.random()))
    elif mode == "sells_first":
        t.sort(key=lambda x: (x["kind"] != "SELL", rng.random()))
    elif mode == "interleave":
        # other securities' lines between same-day lots: stable sort by date then random
        t.sort(key=lambda x: (x["date"], rng.random()))
    return t


def split_fill(rng, txs):
    """Replace one BUY/SELL by 2-5 same-day fills with the same total quantity, consideration and fees."""
    idx = [i for i, t in enumerate(txs) if t["kind"] in ("BUY", "SELL")]
    if not idx:
        return None, None
    i = rng.choice(idx)
    t = txs[i]
    q = fr(t["amount"])
    p = fr(t["price"][0])
    f = fr(t["fees"][0])
    k = rng.randint(2, 5)
    # quantity partition on a 1e-6 grid (kept exact)
    unit = Fraction(1, 10 ** 6)
    n_units = q / unit
    if n_units.denominator != 1 or n_units < k:
        return None, None
    n_units = int(n_units)
    cuts = sorted(rng.sample(range(1, n_units), k - 1)) if n_units > k else list(range(1, k))
    parts = [b - a for a, b in zip([0] + cuts, cuts + [n_units])]
    qs = [Fraction(x) * unit for x in parts]
    # prices: p + delta_i with sum q_i*delta_i = 0, built pairwise; keep prices >= 0 and short decimals
    ps = [p] * k
    for j in range(0, k - 1, 2):
        a = Fraction(rng.randint(0, 50), 100)
        d1, d2 = a * qs[j + 1], -a * qs[j]
        if p + d2 < 0:
            continue
        ps[j], ps[j + 1] = p + d1, p + d2
    if sum(x * y for x, y in zip(qs, ps)) != q * p:
        return None, None
    # fees partition in pence
    fu = f * 100
    if fu.denominator != 1:
        fs = [f] + [ZERO] * (k - 1)
    else:
        fu = int(fu)
        c = sorted(rng.randint(0, fu) for _ in range(k - 1))
        fs = [Fraction(b - a, 100) for a, b in zip([0] + c, c + [fu])]
    fills = []
    for qi, pi, fi in zip(qs, ps, fs):
        try:
            n = dict(t, amount=dstr(qi), price=[dstr(pi), t["price"][1]],
                     fees=[dstr(fi), t["fees"][1] if fi else "GBP"])
        except ValueError:
            return None, None
        fills.append(n)
    if any(len(x["price"][0].replace(".", "")) > 24 for x in fills):
        return None, None
    out = txs[:i] + txs[i + 1:]
    placement = rng.choice(["adjacent", "separated"])
    if placement == "adjacent":
        out[i:i] = fills
    else:
        for n in fills:
            # anywhere among the lines (date sort is stable, so fills end up separated by same-day lines)
            out.insert(rng.randint(0, len(out)), n)
    return out, {"kind": t["kind"], "fills": k, "placement": placement}


def f15_shape(txs):
    return lc.split_trade_same_day(txs)


def classify_diff(base, var, ra, rb, diffs_full, diffs_merged):
    """Signature for a variant disagreement."""
    if diffs_merged:
        return "variants-differ"
    # only per-leg gains / leg lists differ while merged legs, costs and totals agree
    if lc.nonconsecutive_sells(base) or lc.nonconsecutive_sells(var):
        return "F16:per-sell-line-legs-differ-only-with-nonconsecutive-same-day-sells"
    return "variants-differ-in-leg-gains"


F15_SIG = "F15:line-order-matters-when-split-and-trade-share-a-date"


def compare_variant(base, var, oa, ob, cnt, vclass):
    """-> list of violations for one (base, variant) pair."""
    v = _compare_variant(base, var, oa, ob, cnt, vclass)
    if v and f15_shape(base) and (vclass.startswith("perm") or vclass.endswith("separated")):
        # The known defect lives in the 30-day look-ahead only: without any 30-day leg in either report a
        # disagreement has another cause and keeps its own signature.
        def has_bnb(o):
            return "ok" in o and any(m["rule"] == "BedAndBreakfast" for y in o["ok"]["report"]["tax_years"]
                                     for d in y["disposals"] for m in d["matches"])
        if has_bnb(oa) or has_bnb(ob):
            for x in v:
                if not x["signature"].startswith("F16"):
                    x["signature"] = F15_SIG
    return v


def _compare_variant(base, var, oa, ob, cnt, vclass):
    v = []
    if "panic" in oa or "panic" in ob:
        cnt["panic(routed to C15)"] += 1
        return v
    ok_a, ok_b = "ok" in oa, "ok" in ob
    if ok_a != ok_b:
        ea = oa.get("err", {}).get("message", "accepted")
        eb = ob.get("err", {}).get("message", "accepted")
        msg = ea if not ok_a else eb
        # a ~1e-27 decimal shortfall (F3b) that one line order produces and the other does not: qualified exactly as in
        # C05 (what in the ledger explains a residue); excuse "none" and every other refusal stay plain violations
        from .c05 import residue_class
        rc = residue_class(base if not ok_a else var, msg)
        res = rc if rc.startswith("holding-short-by-decimal-residue:") and not rc.endswith(":none") else "other"
        m_ = re.search(r"CAPRETURN (\S+) on (\d{4}-\d\d-\d\d): capital distribution .* exceeds allowable cost", msg)
        if res == "other" and m_:
            # F3c: a capital return dated while exactly zero shares are held (sold out before that date) is ignored or
            # sized against ~1e-26-share residue lots, depending on the rounding path, after a non-terminating split ratio
            tk_, d_ = m_.group(1), pdate(m_.group(2))
            sub = [t for t in base if t["ticker"].upper() == tk_.upper()]
            if lc.nonterminating_split(sub):
                days_, _, _ = hmrc.build_days(sub)
                pos_ = ZERO
                for dy in days_.get(tk_.upper(), []):
                    if dy.date >= d_:
                        break
                    pos_ += dy.A - dy.S
                    for mm in dy.splits:
                        pos_ *= mm
                if pos_ == 0:
                    res = "capital-return-on-exactly-zero-holding-after-nonterminating-split"
        v.append({"clause": "accept-reject-differs", "detail": f"[{vclass}] base: {ea[:160]} | variant: {eb[:160]}",
                  "signature": f"accept-reject-differs:{res}"})
        return v
    if not ok_a:
        cnt["both_rejected"] += 1
        return v
    ra, rb = lc.parse_report(oa["ok"]["report"]), lc.parse_report(ob["ok"]["report"])
    f16 = bool(lc.nonconsecutive_sells(base) or lc.nonconsecutive_sells(var))
    if f16:
        cnt["pairs_with_nonconsecutive_same_day_sells"] += 1
    merged = lc.compare_reports(ra, rb, exact=False, leg_gains=False, label=("base", "variant"))
    if merged:
        v.append({"clause": "variants-differ", "detail": f"[{vclass}] " + "; ".join(merged[:4]),
                  "signature": "variants-differ:" + vclass.split(":")[0]})
        return v
    # per-leg view: the unmerged leg lists and their gains
    def legview(r):
        return [(d["date"], d["ticker"], [(l["rule"], l["acq"], l["qty"], l["gain"]) for l in d["legs"] if abs(l["qty"]) >= lc.DUST])
                for y in r["years"] for d in y["disposals"]]
    la, lb = legview(ra), legview(rb)
    same = len(la) == len(lb) and all(
        x[0] == y[0] and x[1] == y[1] and len(x[2]) == len(y[2]) and all(
            a[0] == b[0] and a[1] == b[1] and lc.close(a[2], b[2], lc.TOL_FINE) and lc.close(a[3], b[3], lc.TOL_10DP, abs(b[3]) + 1)
            for a, b in zip(x[2], y[2])) for x, y in zip(la, lb))
    if not same:
        if f16:
            v.append({"clause": "legs-follow-sell-lines", "detail": f"[{vclass}] leg lists differ only in how same-day sell lines are grouped",
                      "signature": "F16:per-sell-line-legs-differ-only-with-nonconsecutive-same-day-sells"})
        else:
            v.append({"clause": "leg-lists-differ", "detail": f"[{vclass}] per-leg view differs although merged legs agree",
                      "signature": "leg-lists-differ"})
    return v


MODES = ["reverse", "shuffle", "shuffle", "by_ticker", "sells_first", "interleave"]


def split_day_no_bnb_ledger(rng):
    """Trades and splits sharing dates, but no acquisition within 30 days after any sale: nothing here can be
    explained by the 30-day look-ahead (finding F15), so any dependence on line order is reported."""
    import datetime as dt
    from ..util import iso
    tk = rng.choice(["SPL", "DAY"])
    D = dt.date(rng.randint(2016, 2023), rng.randint(1, 12), rng.randint(1, 28))
    txs = []
    held = Fraction(0)
    for _ in range(rng.randint(2, 5)):
        # a block: buys (+ optional split/unsplit, + optional capital-free sells) all on one date
        n_buys = rng.randint(1, 2)
        for _b in range(n_buys):
            q = rng.choice([10, 20, 100])
            txs.append({"date": iso(D), "ticker": tk, "kind": "BUY", "amount": str(q), "price": [str(rng.randint(1, 50)), "GBP"],
                        "fees": ["0", "GBP"]})
            held += q
        if rng.random() < 0.8:
            r = rng.choice(["2", "4", "5", "10"])
            un = rng.random() < 0.3
            txs.append({"date": iso(D), "ticker": tk, "kind": "UNSPLIT" if un else "SPLIT", "ratio": r})
            held = held / int(r) if un else held * int(r)
        D += dt.timedelta(days=rng.randint(40, 90))
        if held > 0 and rng.random() < 0.7:
            # a sale on its own date, more than 31 days before the next block
            q = Fraction(int(held * rng.choice([1, 2, 3]) / 4))
            if q > 0:
                txs.append({"date": iso(D), "ticker": tk, "kind": "SELL", "amount": dstr(q), "price": [str(rng.randint(1, 50)), "GBP"],
                            "fees": ["1", "GBP"]})
                held -= q
            D += dt.timedelta(days=rng.randint(35, 90))
    rng.shuffle(txs)
    return txs


def run_lib(desc):
    rng = rng_for(PROP, desc["seed"], desc["cls"], desc["shard"])
    opts = Opts(**CLASSES[desc["cls"]])
    cnt = Counter()
    viols = []
    hashes = set()
    samples = []
    reqs = []
    meta = []
    for b in range(desc["n"]):
        if desc["cls"] == "split_on_trade_date" and rng.random() < 0.5:
            base = split_day_no_bnb_ledger(rng)
            cnt["bases_split_on_trade_date_without_30day_window"] += 1
        else:
            base, _ = gen_ledger(rng, opts)
        variants = [(permute(rng, base, m), "perm:" + m) for m in MODES]
        for _ in range(2):
            fv, info = split_fill(rng, base)
            if fv is not None:
                variants.append((fv, f"fill:{info['kind']}:{info['placement']}"))
        reqs.append(lc.calc_case(base))
        meta.append(("base", b, base, None))
        for var, vc in variants:
            reqs.append(lc.calc_case(var))
            meta.append(("var", b, var, vc))
    obs = probe().run(reqs)
    bases = {}
    for (kind, b, txs, vc), o in zip(meta, obs):
        if kind == "base":
            bases[b] = (txs, o)
            if "ok" in o and any(y["disposals"] for y in o["ok"]["report"]["tax_years"]):
                hashes.add(sha(txs)[:16])
                # does a 30-day claim land on a multi-lot acquisition day?
                lots = Counter((t["ticker"], t["date"]) for t in txs if t["kind"] == "BUY")
                for y in o["ok"]["report"]["tax_years"]:
                    for d in y["disposals"]:
                        for m in d["matches"]:
                            if m["rule"] == "BedAndBreakfast" and lots[(d["ticker"], m["acquisition_date"])] >= 2:
                                cnt["bases_bnb_claim_on_multi_lot_day"] += 1
                                break
            continue
        base, ob_ = bases[b]
        cnt["variants_" + vc.split(":")[0]] += 1
        cnt["variants_" + vc] += 1
        vs = compare_variant(base, txs, ob_, o, cnt, vc)
        if f15_shape(base):
            cnt["f15_shape_pairs"] += 1
        for x in vs:
            x["case"] = {"op": "pair", "txs": base, "variant": txs, "vclass": vc}
            viols.append(x)
        if len(samples) < 2 and not vs and len(base) <= 8 and vc.startswith("fill") and "ok" in o:
            samples.append({"base": lc.brief(base), "variant_class": vc, "variant": lc.brief(txs)})
    return {"evaluations": len(reqs), "nontrivial_hashes": hashes, "counters": cnt, "violations": cap_viols(viols),
            "samples": samples}


def render_variant_text(rng, lines, eol, trailing):
    s = eol.join(lines)
    if trailing:
        s += eol
    return s


def exec_cli_split(base, lines, chunks, styles, fmt, ordered, cnt):
    """`cgt-tool report` on the concatenation and on the same lines distributed over files; returns violations."""
    from ..clidrv import Sandbox, ALL_YEARS_TOML
    viols = []
    with Sandbox(ALL_YEARS_TOML) as sb:
        sb.write("all.cgt", "\n".join(lines) + "\n")
        names = []
        for i, (c, st) in enumerate(zip(chunks, styles)):
            eol = "\r\n" if st.startswith("CRLF") else "\n"
            trailing = "no-final-newline" not in st
            sb.write(f"part{i}.cgt", render_variant_text(None, c, eol, trailing).encode())
            names.append(f"part{i}.cgt")
        ra = sb.run(["report", "all.cgt", "--format", fmt])
        rb = sb.run(["report"] + names + ["--format", fmt])
    case = {"op": "cli-split", "txs": base, "lines": lines, "chunks": chunks, "styles": styles, "fmt": fmt, "ordered": ordered}
    if ra["timeout"] or rb["timeout"]:
        cnt["cli_timeouts(inconclusive)"] += 1
        return viols
    if (ra["exit"] == 0) != (rb["exit"] == 0):
        viols.append({"clause": "cli-accept-reject-differs", "signature": "cli-accept-reject-differs",
                      "detail": f"whole: exit {ra['exit']} {ra['stderr'][:150]} | split ({styles}): exit {rb['exit']} {rb['stderr'][:150]}",
                      "case": case})
        return viols
    if ra["exit"] != 0:
        return viols
    if fmt == "json":
        ja, jb = json.loads(ra["stdout"]), json.loads(rb["stdout"])
        ja.pop("transactions", None)
        jb.pop("transactions", None)
        same = ja == jb
        if not same and not ordered:
            # unordered distribution: per-sell-line legs may regroup (F16); compare merged view
            same = json_views_close(merged_json_view(ja), merged_json_view(jb))
            if same:
                cnt["cli_f16_regroupings"] += 1
    else:
        ta = ra["stdout"].decode().split("# TRANSACTIONS")[0]
        tb = rb["stdout"].decode().split("# TRANSACTIONS")[0]
        same = ta == tb
        if not same and not ordered:
            same = True  # plain text of regrouped legs is compared through the JSON path only
            cnt["cli_plain_unordered_not_compared"] += 1
    if not same:
        viols.append({"clause": "cli-split-differs", "signature": "cli-split-differs:" + ("ordered" if ordered else "distributed"),
                      "detail": f"report of {len(chunks)} files ({styles}) differs from report of the concatenation ({fmt})",
                      "case": case})
    return viols


def run_cli(desc):
    """Partitions of the line sequence into 1..5 files (in order => byte-identical report expected;
    in any distribution => same figures), incl. CRLF files and files without a final newline."""
    from ..clidrv import Sandbox, ALL_YEARS_TOML
    rng = rng_for(PROP, desc["seed"], "cli", desc["shard"])
    cnt = Counter()
    viols = []
    hashes = set()
    samples = []
    for _ in range(desc["n"]):
        base, _f = gen_ledger(rng, Opts(**CLASSES[rng.choice(["multi", "single_dense", "plain"])]))
        if rng.random() < 0.4:
            # two textually identical lines (two equal fills of one order): they may end up in different files
            buys = [i for i, t in enumerate(base) if t["kind"] == "BUY"]
            if buys:
                i_ = rng.choice(buys)
                base = base[:i_ + 1] + [dict(base[i_])] + base[i_ + 1:]
                cnt["cli_ledgers_with_identical_lines"] += 1
        lines = render_dsl(base).splitlines()
        k = rng.randint(1, min(5, len(lines)))
        ordered = rng.random() < 0.5
        if ordered:
            cuts = sorted(rng.sample(range(1, len(lines)), k - 1)) if k > 1 else []
            chunks = [lines[a:b] for a, b in zip([0] + cuts, cuts + [len(lines)])]
        else:
            chunks = [[] for _ in range(k)]
            for ln in lines:
                rng.choice(chunks).append(ln)
            chunks = [c for c in chunks if c] or [lines]
        styles = []
        for _c in chunks:
            eol = rng.choice(["\n", "\n", "\r\n"])
            trailing = rng.random() < 0.5
            styles.append(("CRLF" if eol == "\r\n" else "LF") + ("" if trailing else ",no-final-newline"))
        fmt = rng.choice(["json", "json", "plain"])
        cnt["cli_pairs"] += 1
        cnt[f"cli_files_{len(chunks)}"] += 1
        for s in styles:
            cnt["cli_style_" + s] += 1
        hashes.add(sha([base, chunks])[:16])
        vs_ = exec_cli_split(base, lines, chunks, styles, fmt, ordered, cnt)
        viols += vs_
        if not vs_ and len(samples) < 1 and len(chunks) >= 2:
            samples.append({"files": len(chunks), "styles": styles, "format": fmt, "ordered_chunks": ordered,
                            "result": "identical figures"})
    return {"evaluations": cnt["cli_pairs"] * 2, "nontrivial_hashes": hashes, "counters": cnt,
            "violations": cap_viols(viols), "samples": samples}


def merged_json_view(j):
    """JSON report -> structure with legs merged per (rule, acquisition date)."""
    years = []
    for y in j["tax_years"]:
        ds = []
        for d in y["disposals"]:
            legs = defaultdict(lambda: [Fraction(0), Fraction(0), 0])
            for m in d["matches"]:
                k = (m["rule"], m.get("acquisition_date") or "")
                legs[k][0] += Fraction(m["quantity"])
                legs[k][1] += Fraction(m["allowable_cost"])
                legs[k][2] += 1
            ds.append({"key": (d["date"], d["ticker"]), "q": Fraction(d["quantity"]), "gross": Fraction(d["gross_proceeds"]),
                       "net": Fraction(d["proceeds"]), "legs": dict(legs)})
        years.append({"period": y["period"], "disposals": ds, "count": y["disposal_count"],
                      "totals": [Fraction(y[k]) for k in ("total_gain", "total_loss", "net_gain")]})
    hold = {h["ticker"]: (Fraction(h["quantity"]), Fraction(h["total_cost"])) for h in j["holdings"]}
    return years, hold


def json_views_close(a, b):
    """Equal up to what regrouped same-day sell lines can legitimately move: decimal residue in quantities
    and one penny of display rounding per merged leg / per disposal in money strings."""
    (ya, ha), (yb, hb) = a, b
    qt = Fraction(1, 10 ** 12)
    pen = Fraction(1, 100)
    if [y["period"] for y in ya] != [y["period"] for y in yb]:
        return False
    for x, y in zip(ya, yb):
        if x["count"] != y["count"] or [d["key"] for d in x["disposals"]] != [d["key"] for d in y["disposals"]]:
            return False
        n = max(1, len(x["disposals"]))
        if any(abs(p - q) > pen * 2 * n for p, q in zip(x["totals"], y["totals"])):
            return False
        for d, e in zip(x["disposals"], y["disposals"]):
            if abs(d["q"] - e["q"]) > qt or abs(d["gross"] - e["gross"]) > pen or abs(d["net"] - e["net"]) > pen:
                return False
            if set(d["legs"]) != set(e["legs"]):
                return False
            for k in d["legs"]:
                if abs(d["legs"][k][0] - e["legs"][k][0]) > qt:
                    return False
                if abs(d["legs"][k][1] - e["legs"][k][1]) > pen * (d["legs"][k][2] + e["legs"][k][2]):
                    return False
    if set(ha) != set(hb):
        return False
    return all(abs(ha[k][0] - hb[k][0]) <= qt and abs(ha[k][1] - hb[k][1]) <= pen for k in ha)


def run_shard(desc):
    return run_lib(desc) if desc["kind"] == "lib" else run_cli(desc)


def replay(case):
    if case.get("op") == "cli-split":
        lines = case.get("lines") or render_dsl(case["txs"]).splitlines()
        vs = exec_cli_split(case["txs"], lines, case["chunks"], case["styles"], case["fmt"], case["ordered"], Counter())
        return vs, {"files": len(case["chunks"]), "styles": case["styles"]}
    if case.get("op") != "pair":
        return [], {"note": "see case body"}
    oa, ob = probe().run([lc.calc_case(case["txs"]), lc.calc_case(case["variant"])])
    vs = compare_variant(case["txs"], case["variant"], oa, ob, Counter(), case.get("vclass", "replay"))
    return vs, {"base": oa, "variant": ob}


THRESHOLDS = {"cli_ledgers_with_identical_lines": 35, "bases_bnb_claim_on_multi_lot_day": 300, "variants_perm": 5000, "variants_fill": 1000,
              "cli_pairs": 100, "cli_style_CRLF": 20, "cli_style_LF,no-final-newline": 20}
RULE = ("base ledgers x (6 line permutations incl. reversal, by-ticker, sells-first, same-day interleaving) x (2 "
        "fill-splittings with exact total quantity/consideration/fees, adjacent or separated) at the library boundary, "
        "compared tool-vs-tool; plus real CLI runs of 1-5 files (LF/CRLF, with/without final newline, ordered or "
        "arbitrarily distributed) against the concatenation; distinct by base-ledger hash")
