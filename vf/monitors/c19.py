"""C19 - RSU vests use the nearest vest date within seven days back, never a guess."""
from __future__ import annotations

import datetime as dt
import itertools
import json
from collections import Counter
from fractions import Fraction

from ..model import schwab as sm
from ..probe import probe
from ..util import cap_viols, rng_for, sha, fr, d as pdate

PROP = "C19"


def plan(tier, seed):
    shards = [{"kind": "grid", "part": i, "parts": 8} for i in range(8)]
    k = 96 if tier == "quick" else 600
    shards += [{"kind": "random", "seed": seed, "shard": i, "n": 200} for i in range(k)]
    return shards


def us(d):
    return f"{d.month:02d}/{d.day:02d}/{d.year}"


def entry(sym, parent, cls, value, vest_date=None, action="Deposit"):
    if cls == "vest":
        det = {"VestFairMarketValue": value}
        if vest_date is not None:
            det["VestDate"] = us(vest_date)
    else:
        det = {"FairMarketValuePrice": value}
    return {"Date": us(parent), "Action": action, "Symbol": sym, "TransactionDetails": [{"Details": det}]}


def deposit_row(sym, d, qty="10"):
    # The row's own Price / Amount columns are filled in on some rows (derived from the row itself, so a replay agrees):
    # a figure printed there is NOT an awards entry and must never stand in for one (C19-r5m1).
    k = (d.toordinal() * 7 + len(sym) + len(qty)) % 5
    price = {0: "$777.77", 1: "$0.01"}.get(k, "")
    return {"Date": us(d), "Action": "Stock Plan Activity", "Symbol": sym, "Description": "RSU", "Quantity": qty,
            "Price": price, "Fees & Comm": "", "Amount": "$1,234.56" if k == 0 else ""}


def judge(rows, awards, o, cnt):
    """One deposit row per export (so the emitted BUY is unambiguous)."""
    v = []
    dep = next(r for r in rows if r["Action"] == "Stock Plan Activity")
    D = sm.row_date(dep["Date"])
    sym = dep["Symbol"].strip()
    sel = sm.select_award(sm.award_table(awards), sym, D) if awards is not None else None
    if "panic" in o:
        return [{"clause": "converter-panic", "signature": "converter-panic", "detail": str(o["panic"])[:200]}]
    if sel is None:
        cnt["no_qualifying_entry"] += 1
        if "ok" in o:
            buys = [t for t in o["ok"].get("reparse", {}).get("ok", []) if t["kind"] == "BUY"]
            v.append({"clause": "cost-invented-without-qualifying-entry", "signature": "cost-invented-without-qualifying-entry",
                      "detail": f"deposit {D} {sym}: no awards entry on that date or within 7 days before it, yet conversion "
                                f"succeeded with {[(b['date'], b['price'][0]) for b in buys]}"})
        else:
            e = o["err"]
            if e["kind"] != "MissingFairMarketValue":
                v.append({"clause": "wrong-error-kind", "signature": "wrong-error-kind:" + e["kind"], "detail": e["message"][:200]})
            elif sym.upper() not in e["message"].upper() or D.isoformat() not in e["message"]:
                v.append({"clause": "error-does-not-name-symbol-and-date", "signature": "error-does-not-name-symbol-and-date",
                          "detail": e["message"][:200]})
            else:
                cnt["failures_naming_symbol_and_date"] += 1
        return v
    vest, fmvs = sel
    gap = (D - vest).days
    cnt[f"selected_gap_{gap}"] += 1
    if "ok" not in o:
        v.append({"clause": "qualifying-entry-not-used", "signature": "qualifying-entry-not-used",
                  "detail": f"deposit {D} {sym}: entry dated {vest} ({gap} days back) qualifies but conversion failed: "
                            f"{o.get('err', {}).get('message', '')[:160]}"})
        return v
    buys = [t for t in o["ok"].get("reparse", {}).get("ok", []) if t["kind"] == "BUY" and t["ticker"] == sym.upper()]
    if len(buys) != 1:
        v.append({"clause": "rsu-buy-count", "signature": "rsu-buy-count", "detail": f"{len(buys)} BUY lines for one deposit row"})
        return v
    b = buys[0]
    if pdate(b["date"]) != vest:
        side = "after-deposit" if pdate(b["date"]) > D else ("older-than-7-days" if (D - pdate(b["date"])).days > 7 else "not-nearest")
        v.append({"clause": "wrong-vest-date", "signature": "wrong-vest-date:" + side,
                  "detail": f"deposit {D} {sym}: BUY dated {b['date']} but the qualifying entry is {vest} ({gap} days back)"})
    elif fr(b["price"][0]) not in fmvs or b["price"][1] != "USD":
        v.append({"clause": "wrong-vest-price", "signature": "wrong-vest-price",
                  "detail": f"deposit {D} {sym}: BUY priced {b['price']} but the entry of {vest} gives {[str(x) for x in fmvs]}"})
    elif fr(b["amount"]) != sm.amount(dep["Quantity"]):
        v.append({"clause": "wrong-quantity", "signature": "wrong-quantity", "detail": f"{b['amount']} vs {dep['Quantity']}"})
    else:
        cnt["rsu_buys_correct"] += 1
    return v


def judge_multi(rows, awards, o, cnt):
    """Several deposit rows in one export (different symbols on one date, one symbol on several dates). Each row has
    its own quantity, so its BUY line is identified by (ticker, amount)."""
    v = []
    if "panic" in o:
        return [{"clause": "converter-panic", "signature": "converter-panic", "detail": str(o["panic"])[:200]}]
    table = sm.award_table(awards)
    deps = [r for r in rows if r["Action"] == "Stock Plan Activity"]
    want, missing = [], []
    for dep in deps:
        D = sm.row_date(dep["Date"])
        sym = dep["Symbol"].strip()
        sel = sm.select_award(table, sym, D)
        if sel is None:
            missing.append((sym, D))
        else:
            want.append((sym, D, sel, sm.amount(dep["Quantity"])))
    cnt["multi_deposit_exports"] += 1
    if len({sm.row_date(d_["Date"]) for d_ in deps}) < len(deps) and len({d_["Symbol"].upper() for d_ in deps}) > 1:
        cnt["multi_deposit_two_symbols_one_date"] += 1
    if missing:
        cnt["no_qualifying_entry"] += 1
        if "ok" in o:
            v.append({"clause": "cost-invented-without-qualifying-entry", "signature": "cost-invented-without-qualifying-entry",
                      "detail": f"deposits {[(s_, str(d_)) for s_, d_ in missing]} have no awards entry on the date or within 7 "
                                f"days before it, yet conversion succeeded"})
        else:
            e = o["err"]
            if e["kind"] != "MissingFairMarketValue":
                v.append({"clause": "wrong-error-kind", "signature": "wrong-error-kind:" + e["kind"], "detail": e["message"][:200]})
            elif not any(s_.upper() in e["message"].upper() and d_.isoformat() in e["message"] for s_, d_ in missing):
                v.append({"clause": "error-does-not-name-symbol-and-date", "signature": "error-does-not-name-symbol-and-date",
                          "detail": f"{e['message'][:200]} (unpriced deposits: {[(s_, str(d_)) for s_, d_ in missing]})"})
            else:
                cnt["failures_naming_symbol_and_date"] += 1
        return v
    if "ok" not in o:
        v.append({"clause": "qualifying-entry-not-used", "signature": "qualifying-entry-not-used",
                  "detail": f"every deposit has a qualifying entry but conversion failed: {o.get('err', {}).get('message', '')[:160]}"})
        return v
    buys = [t for t in o["ok"].get("reparse", {}).get("ok", []) if t["kind"] == "BUY"]
    if len(buys) != len(deps):
        v.append({"clause": "rsu-buy-count", "signature": "rsu-buy-count", "detail": f"{len(buys)} BUY lines for {len(deps)} deposit rows"})
        return v
    for sym, D, (vest, fmvs), qty in want:
        b = [t for t in buys if t["ticker"] == sym.upper() and fr(t["amount"]) == qty]
        if len(b) != 1:
            v.append({"clause": "rsu-buy-count", "signature": "rsu-buy-count",
                      "detail": f"deposit {D} {sym} x{qty}: {len(b)} matching BUY lines"})
            continue
        b = b[0]
        gap = (D - vest).days
        cnt[f"selected_gap_{gap}"] += 1
        if pdate(b["date"]) != vest:
            side = "after-deposit" if pdate(b["date"]) > D else ("older-than-7-days" if (D - pdate(b["date"])).days > 7 else "not-nearest")
            v.append({"clause": "wrong-vest-date", "signature": "wrong-vest-date:" + side,
                      "detail": f"deposit {D} {sym}: BUY dated {b['date']} but the qualifying entry is {vest} ({gap} days back)"})
        elif fr(b["price"][0]) not in fmvs or b["price"][1] != "USD":
            v.append({"clause": "wrong-vest-price", "signature": "wrong-vest-price",
                      "detail": f"deposit {D} {sym}: BUY priced {b['price']} but the {sym} entry of {vest} gives {[str(x) for x in fmvs]}"})
        else:
            cnt["rsu_buys_correct"] += 1
    return v


def gen_multi(rng):
    syms = rng.sample(["XYZZ", "ACMS", "BAR", "Q1"], rng.randint(2, 3))
    D = dt.date(rng.randint(2017, 2025), rng.randint(1, 12), rng.randint(1, 28))
    rows, ents = [], []
    qty = 10
    used = set()
    for sym in syms:
        for _k in range(rng.randint(1, 2)):
            dd = D + dt.timedelta(days=rng.choice([0, 0, 0, 1, 3, 9]))
            if (sym, dd) in used:
                continue
            used.add((sym, dd))
            qty += 1
            rows.append(deposit_row(rng.choice([sym, sym.lower()]) if rng.random() < 0.2 else sym, dd, qty=str(qty)))
            if rng.random() < 0.88:      # otherwise this deposit has no qualifying entry
                g = rng.choice([0, 0, 1, 2, 7])
                ed = dd - dt.timedelta(days=g)
                val = "$%d.%02d" % (rng.randint(5, 900), rng.randint(0, 99))
                if rng.random() < 0.5:
                    ents.append(entry(sym, ed + dt.timedelta(days=rng.choice([0, 2])), "vest", val, vest_date=ed))
                else:
                    ents.append(entry(sym, ed, "fallback", val, action=rng.choice(["Deposit", "Lapse"])))
    rng.shuffle(rows)
    rng.shuffle(ents)
    return rows, {"Transactions": ents}, "multi_deposit"


def run_cases(cases):
    cnt = Counter()
    viols = []
    hashes = set()
    samples = []
    reqs = [{"op": "convert", "transactions_json": sm.export_json(rows),
             "awards_json": json.dumps(aw) if aw is not None else None, "reparse": True} for rows, aw, _ in cases]
    obs = probe().run(reqs)
    for (rows, aw, label), o in zip(cases, obs):
        cnt["cases"] += 1
        cnt["class_" + label] += 1
        hashes.add(sha([rows, aw])[:16])
        vs = (judge_multi if label == "multi_deposit" else judge)(rows, aw, o, cnt)
        for x in vs:
            x["case"] = {"op": "convert", "rows": rows, "awards": aw, "label": label}
            viols.append(x)
        if not vs and len(samples) < 2 and label != "grid":
            samples.append({"deposit": rows[0]["Date"], "awards": aw,
                            "result": (o.get("ok", {}).get("cgt_content", "").split("\n")[-1] if "ok" in o else o["err"]["message"])})
    return {"evaluations": len(cases), "nontrivial_hashes": hashes, "counters": cnt, "violations": cap_viols(viols), "samples": samples}


def run_grid(desc):
    """Exhaustive: entry gap in [-3,12] x competitor gap in [-3,12] x (entry class, competitor class) x deposit
    date class (mid-month, month start, year start, 1 March of a leap year)."""
    cases = []
    deposits = [dt.date(2023, 6, 15), dt.date(2023, 3, 3), dt.date(2024, 1, 2), dt.date(2024, 3, 1)]
    i = 0
    for D in deposits:
        for g1, g2 in itertools.product(range(-3, 13), repeat=2):
            for c1, c2 in itertools.product(("vest", "fallback"), repeat=2):
                if i % desc["parts"] == desc["part"]:
                    e1d, e2d = D - dt.timedelta(days=g1), D - dt.timedelta(days=g2)
                    if g1 == g2 and c1 != c2:
                        pass  # same date, different classes: set-valued in the model
                    ents = []
                    for cls, ed, val in ((c1, e1d, "$101.25"), (c2, e2d, "$202.50")):
                        if cls == "vest":
                            # parent date is a later settlement date; VestDate carries the vest date
                            ents.append(entry("XYZZ", ed + dt.timedelta(days=2), "vest", val, vest_date=ed))
                        else:
                            ents.append(entry("xyzz" if (g1 + g2) % 2 else "XYZZ", ed, "fallback", val))
                    cases.append(([deposit_row("XYZZ", D)], {"Transactions": ents}, "grid"))
                i += 1
    return run_cases(cases)


def run_random(desc):
    rng = rng_for(PROP, desc["seed"], "random", desc["shard"])
    cases = []
    for _ in range(desc["n"]):
        if rng.random() < 0.2:
            cases.append(gen_multi(rng))
            continue
        D = dt.date(rng.randint(2016, 2025), rng.randint(1, 12), rng.randint(1, 28))
        if rng.random() < 0.3:
            D = rng.choice([dt.date(2024, 1, 3), dt.date(2023, 3, 2), dt.date(2024, 3, 4), dt.date(2025, 1, 1), dt.date(2022, 12, 31)])
        sym = rng.choice(["XYZZ", "Acme", "bar", "Q1"])
        label = rng.choice(["several_entries", "none", "no_awards_file", "other_symbol_only", "after_only", "old_only",
                            "non_vesting_noise", "both_fields_in_one_entry", "vest_without_vestdate",
                            "vest_and_fallback_in_sibling_items", "vest_and_fallback_in_sibling_items"])
        ents = []
        if label == "several_entries":
            for _e in range(rng.randint(1, 5)):
                g = rng.choice([-3, -1, 0, 0, 1, 2, 6, 7, 7, 8, 9, 12])
                cls = rng.choice(["vest", "fallback"])
                val = sm.spell_amount(rng, Fraction(rng.randint(100, 999999), 10000))
                s2 = rng.choice([sym, sym.upper(), sym.lower()])
                ed = D - dt.timedelta(days=g)
                if cls == "vest":
                    ents.append(entry(s2, ed + dt.timedelta(days=rng.choice([0, 1, 3])), "vest", val, vest_date=ed))
                else:
                    ents.append(entry(s2, ed, "fallback", val, action=rng.choice(["Deposit", "Lapse", "Sale"])))
            # avoid two entries offering different values for one date with the same class within... keep: set-valued
        elif label == "other_symbol_only":
            ents.append(entry("OTHER", D, "fallback", "$5.00"))
        elif label == "after_only":
            ents.append(entry(sym, D + dt.timedelta(days=rng.randint(1, 5)), "fallback", "$5.00"))
        elif label == "old_only":
            ents.append(entry(sym, D - dt.timedelta(days=rng.randint(8, 40)), "fallback", "$5.00"))
        elif label == "non_vesting_noise":
            ents.append({"Date": us(D), "Action": rng.choice(["Wire Transfer", "Tax Withholding", "Tax Reversal", "Forced Disbursement"]),
                         "Symbol": sym, "TransactionDetails": []})
            if rng.random() < 0.5:
                ents.append(entry(sym, D - dt.timedelta(days=rng.randint(0, 7)), "fallback", "$7.50"))
        elif label == "both_fields_in_one_entry":
            ed = D - dt.timedelta(days=rng.randint(0, 7))
            ents.append({"Date": us(ed), "Action": "Lapse", "Symbol": sym, "TransactionDetails": [
                {"Details": {"FairMarketValuePrice": "$9.99", "VestDate": us(ed), "VestFairMarketValue": "$10.01"}}]})
        elif label == "vest_and_fallback_in_sibling_items":
            # one entry whose details mix a vest-specific item with a sibling item that only has the fallback price
            ed = D - dt.timedelta(days=rng.randint(0, 5))
            vd = ed - dt.timedelta(days=rng.randint(0, 3))
            items = [{"Details": {"VestDate": us(vd), "VestFairMarketValue": "$" + str(rng.randint(10, 90)) + ".25"}},
                     {"Details": {"FairMarketValuePrice": "$" + str(rng.randint(100, 190)) + ".50"}}]
            if rng.random() < 0.5:
                items.reverse()
            ents.append({"Date": us(ed), "Action": rng.choice(["Deposit", "Lapse"]), "Symbol": rng.choice([sym, sym.lower()]),
                         "TransactionDetails": items})
        elif label == "vest_without_vestdate":
            ed = D - dt.timedelta(days=rng.randint(0, 8))
            ents.append(entry(sym, ed, "vest", "$12.34"))
        aw = None if label == "no_awards_file" else {"Transactions": ents}
        rows = [deposit_row(sym, D, qty=rng.choice(["10", "1,000", "0.5"]))]
        if rng.random() < 0.3:
            rows.append({"Date": us(D), "Action": "Journal", "Symbol": "", "Description": "x", "Quantity": "", "Price": "",
                         "Fees & Comm": "", "Amount": "$1.00"})
        cases.append((rows, aw, label))
    return run_cases(cases)


def run_shard(desc):
    return run_grid(desc) if desc["kind"] == "grid" else run_random(desc)


def replay(case):
    o = probe().one({"op": "convert", "transactions_json": sm.export_json(case["rows"]),
                     "awards_json": json.dumps(case["awards"]) if case.get("awards") is not None else None, "reparse": True})
    vs = (judge_multi if case.get("label") == "multi_deposit" else judge)(case["rows"], case.get("awards"), o, Counter())
    return vs, o


def finalize(total, tier, seed):
    total.setdefault("extra_coverage", {})["exhaustive_subspaces"] = [
        "entry gap in [-3,12] x competitor gap in [-3,12] x entry class {vest-specific, fallback}^2 x 4 deposit dates "
        "(mid-month, month start, year start, 1 March of a leap year) = 4,096 awards files"]


THRESHOLDS = {"multi_deposit_two_symbols_one_date": 300, "class_grid": 4096, "cases": 6000, "selected_gap_0": 500, "selected_gap_7": 100, "no_qualifying_entry": 500,
              "failures_naming_symbol_and_date": 500, "rsu_buys_correct": 2000, "class_no_awards_file": 100}
RULE = ("complete grid of two-entry awards files around the deposit date (gaps -3..12, both price-field classes, "
        "month/year/leap boundaries) plus random awards files (1-5 entries per symbol, mixed-case symbols, non-vesting "
        "noise, entries after or too long before the deposit, no awards file); the emitted BUY's date and price are "
        "compared with an independent selection model (set-valued where two entries offer one date); distinct by case hash")
