"""C14 - transactions survive DSL and JSON round trips unchanged; writing is idempotent; a ledger, its DSL
rendering and its JSON rendering produce the same report."""
from __future__ import annotations

import datetime as dt
import json
from collections import Counter
from fractions import Fraction

from ..gen.ledger import Opts, gen_ledger
from ..probe import probe
from ..util import cap_viols, rng_for, sha, iso
from . import ledger_core as lc

PROP = "C14"
MAX_M = 2 ** 96 - 1
KEYWORDY = ["BUY", "SELL", "FEES", "TAX", "TOTAL", "RATIO", "SPLIT", "UNSPLIT", "DIVIDEND", "USD", "GBP", "EUR",
            "123", "1E5", "0", "007", "A", "Z9Z9", "CAPRETURN", "ACCUMULATION", "X" * 40, "9" * 30]
_codes = None


def codes():
    global _codes
    if _codes is None:
        _codes = sorted(c["code"] for c in probe().one({"op": "currencies"})["ok"])
    return _codes


def plan(tier, seed):
    k = 96 if tier == "quick" else 800
    shards = [{"kind": "lists", "seed": seed, "shard": i, "n": 120} for i in range(k)]
    shards += [{"kind": "currencies"}]
    shards += [{"kind": "reports", "seed": seed, "shard": i, "n": 100} for i in range(k // 2)]
    shards += [{"kind": "cli", "seed": seed, "shard": i, "n": 10} for i in range(8 if tier == "quick" else 120)]
    shards += [{"kind": "mcp", "seed": seed, "shard": i, "n": 25} for i in range(6 if tier == "quick" else 40)]
    return shards


def rand_dec(rng, positive=True, allow_zero=False):
    """A decimal literal of arbitrary scale 0..28 within the 96-bit mantissa."""
    k = rng.random()
    s = rng.randint(0, 28)
    if k < 0.1:
        m = 1
    elif k < 0.2:
        m = MAX_M
    elif k < 0.3:
        m = rng.randint(1, 9) * 10 ** rng.randint(0, 27)     # trailing zeros
    elif k < 0.4 and allow_zero:
        m = 0
    else:
        m = rng.randint(1, 10 ** rng.randint(1, 28))
    if m == 0 and not allow_zero:
        m = 1
    digits = str(m)
    if s == 0:
        return digits
    digits = digits.rjust(s + 1, "0")
    return digits[:-s] + "." + digits[-s:]


def rand_money(rng, allow_zero=True):
    return [rand_dec(rng, allow_zero=allow_zero), rng.choice(codes()) if rng.random() < 0.7 else "GBP"]


def rand_date(rng):
    k = rng.random()
    if k < 0.1:
        return rng.choice(["0001-01-01", "9999-12-31", "0999-02-28", "1000-01-01", "2000-02-29", "1900-03-01"])
    y = rng.choice([rng.randint(1, 9999), rng.randint(1990, 2030)])
    m = rng.randint(1, 12)
    d_ = rng.randint(1, 28)
    return f"{y:04d}-{m:02d}-{d_:02d}"


def rand_ticker(rng):
    if rng.random() < 0.3:
        return rng.choice(KEYWORDY)
    n = rng.randint(1, 8)
    return "".join(rng.choice("ABCDEFGHIJKLMNOPQRSTUVWXYZ0123456789") for _ in range(n))


def with_twin_line(rng, l, p=0.4):
    """An order filled in two equal lots gives two consecutive, textually identical lines: both are transactions
    (C14-r5m1 collapsed such neighbours in one input path). Only BUY / DIVIDEND lines are doubled, so that the ledger
    stays covered."""
    idx = [i for i, t in enumerate(l) if t["kind"] in ("BUY", "DIVIDEND")]
    if not idx or rng.random() >= p:
        return l
    i = rng.choice(idx)
    return l[:i + 1] + [dict(l[i]) for _ in range(rng.choice([1, 1, 2]))] + l[i + 1:]


def rand_tx(rng):
    k = rng.choice(["BUY", "SELL", "DIVIDEND", "ACCUMULATION", "CAPRETURN", "SPLIT", "UNSPLIT"])
    t = {"date": rand_date(rng), "ticker": rand_ticker(rng), "kind": k}
    opt = (lambda: rand_money(rng) if rng.random() < 0.6 else [rng.choice(["0", "0.00", "0.0"]), rng.choice(["GBP", "USD"])])
    if k in ("BUY", "SELL"):
        t.update(amount=rand_dec(rng), price=rand_money(rng), fees=opt())
    elif k == "DIVIDEND":
        t.update(total=rand_money(rng), tax=opt())
    elif k == "ACCUMULATION":
        t.update(amount=rand_dec(rng), total=rand_money(rng, allow_zero=False), tax=opt())
    elif k == "CAPRETURN":
        t.update(amount=rand_dec(rng), total=rand_money(rng, allow_zero=False), fees=opt())
    else:
        t.update(ratio=rand_dec(rng))
    return t


def same_tx(a, b):
    """Equality up to the one permitted loss: a zero FEES/TAX may lose its currency label (and scale)."""
    diffs = []
    for k in set(a) | set(b):
        if k == "_ev":
            continue
        x, y = a.get(k), b.get(k)
        if k in ("fees", "tax") and x and y and Fraction(x[0]) == 0 and Fraction(y[0]) == 0:
            continue
        if x != y:
            diffs.append(f"{k}: {x} -> {y}")
    return diffs


def run_lists(desc):
    rng = rng_for(PROP, desc["seed"], "lists", desc["shard"])
    cnt = Counter()
    viols = []
    hashes = set()
    samples = []
    p = probe()
    lists = [[rand_tx(rng) for _ in range(rng.randint(1, 8))] for _ in range(desc["n"])]
    lists = [(l[:1] + [dict(l[0])] + l[1:]) if rng.random() < 0.15 else l for l in lists]    # identical neighbours
    o_dsl = p.run([{"op": "to_dsl", "txs": l} for l in lists])
    o_js = p.run([{"op": "json_ser", "txs": l} for l in lists])
    back_dsl = p.run([{"op": "parse", "text": o.get("ok", "")} for o in o_dsl])
    back_js = p.run([{"op": "json_de", "text": o.get("ok", "")} for o in o_js])
    again = p.run([{"op": "to_dsl", "txs": b.get("ok", [])} if "ok" in b else {"op": "ping"} for b in back_dsl])
    for l, od, oj, bd, bj, ag in zip(lists, o_dsl, o_js, back_dsl, back_js, again):
        cnt["lists"] += 1
        cnt["transactions"] += len(l)
        for t in l:
            cnt["kind_" + t["kind"]] += 1
            for f in ("amount", "ratio"):
                if f in t:
                    sc = len(t[f].split(".")[1]) if "." in t[f] else 0
                    cnt["scale_%02d" % sc] += 1
            for f in ("price", "fees", "total", "tax"):
                if f in t:
                    sc = len(t[f][0].split(".")[1]) if "." in t[f][0] else 0
                    cnt["scale_%02d" % sc] += 1
        hashes.add(sha(l)[:16])
        case = {"op": "roundtrip", "txs": l}
        if "ok" not in od or "ok" not in oj:
            viols.append({"clause": "writer-failed", "signature": "writer-failed", "detail": str(od)[:150] + str(oj)[:150], "case": case})
            continue
        for name, b in (("dsl", bd), ("json", bj)):
            if "ok" not in b:
                viols.append({"clause": f"{name}-rendering-not-readable", "signature": f"{name}-rendering-not-readable",
                              "detail": f"{str(b.get('err') or b.get('panic'))[:250]}", "case": case})
                continue
            got = b["ok"]
            if len(got) != len(l):
                viols.append({"clause": f"{name}-roundtrip-count", "signature": f"{name}-roundtrip-count",
                              "detail": f"{len(l)} -> {len(got)}", "case": case})
                continue
            for i, (x, y) in enumerate(zip(l, got)):
                d_ = same_tx(x, y)
                if d_:
                    viols.append({"clause": f"{name}-roundtrip-changes-transaction", "signature": f"{name}-roundtrip-changes-transaction",
                                  "detail": f"tx {i + 1} ({x['kind']}): " + "; ".join(d_[:3]), "case": case})
                    break
        if "ok" in bd and ag.get("ok") != od["ok"]:
            viols.append({"clause": "writer-not-idempotent", "signature": "writer-not-idempotent",
                          "detail": f"{od['ok'][:120]!r} then {str(ag.get('ok'))[:120]!r}", "case": case})
        if len(samples) < 2 and len(l) <= 3:
            samples.append({"transactions": l, "dsl": od["ok"]})
    return {"evaluations": len(lists) * 5, "nontrivial_hashes": hashes, "counters": cnt, "violations": cap_viols(viols), "samples": samples}


def run_currencies(desc):
    """Every currency code the tool knows, on every money field, through both round trips."""
    cnt = Counter()
    viols = []
    hashes = set()
    p = probe()
    cs = codes()
    txs = []
    for i, c in enumerate(cs):
        txs.append({"date": "2024-01-15", "ticker": "CUR", "kind": "BUY", "amount": "1", "price": ["1.5", c], "fees": ["0.25", c]})
        txs.append({"date": "2024-01-15", "ticker": "CUR", "kind": "DIVIDEND", "total": ["2", c], "tax": ["0.1", c]})
    od = p.one({"op": "to_dsl", "txs": txs})
    oj = p.one({"op": "json_ser", "txs": txs})
    bd = p.one({"op": "parse", "text": od.get("ok", "")})
    bj = p.one({"op": "json_de", "text": oj.get("ok", "")})
    for name, b in (("dsl", bd), ("json", bj)):
        if "ok" not in b:
            viols.append({"clause": f"{name}-currency-not-readable", "signature": f"{name}-currency-not-readable",
                          "detail": str(b.get("err"))[:300], "case": {"op": "roundtrip", "txs": txs[:4]}})
            continue
        for x, y in zip(txs, b["ok"]):
            cnt[f"currency_fields_{name}"] += 2
            if same_tx(x, y):
                viols.append({"clause": f"{name}-currency-roundtrip", "signature": f"{name}-currency-roundtrip",
                              "detail": str(same_tx(x, y))[:200], "case": {"op": "roundtrip", "txs": [x]}})
    cnt["currency_codes"] = len(cs)
    return {"evaluations": 4, "nontrivial_hashes": set(cs), "counters": cnt, "violations": cap_viols(viols),
            "samples": [{"codes": len(cs), "first": cs[:5]}]}


def run_reports(desc):
    """report(ledger) == report(its DSL rendering) == report(its JSON rendering), library boundary."""
    rng = rng_for(PROP, desc["seed"], "reports", desc["shard"])
    cnt = Counter()
    viols = []
    hashes = set()
    p = probe()
    ledgers = [gen_ledger(rng, Opts(capital=True, splits=True, n_sec=(1, 3), steps=(3, 10),
                                    currencies=["USD", "EUR", "JPY"], start=(dt.date(2016, 1, 1), dt.date(2024, 1, 1)),
                                    last_date=dt.date(2026, 3, 1)))[0] for _ in range(desc["n"])]
    ledgers = [with_twin_line(rng, l) for l in ledgers]
    od = p.run([{"op": "to_dsl", "txs": l} for l in ledgers])
    oj = p.run([{"op": "json_ser", "txs": l} for l in ledgers])
    reqs = []
    for l, a, b in zip(ledgers, od, oj):
        reqs += [lc.calc_case(l, fx="bundled"), lc.calc_case(dsl=a.get("ok", ""), fx="bundled"),
                 lc.calc_case(json_text=b.get("ok", ""), fx="bundled")]
    obs = p.run(reqs)
    for i, l in enumerate(ledgers):
        o0, o1, o2 = obs[3 * i:3 * i + 3]
        cnt["ledgers"] += 1
        hashes.add(sha(l)[:16])
        case = {"op": "reports", "txs": l}
        for name, o in (("dsl", o1), ("json", o2)):
            if ("ok" in o0) != ("ok" in o):
                viols.append({"clause": f"report-acceptance-differs-{name}", "signature": f"report-acceptance-differs-{name}",
                              "detail": f"structs: {str(o0.get('err'))[:100]} {name}: {str(o.get('err'))[:150]}", "case": case})
                continue
            if "ok" not in o0:
                continue
            cnt["report_pairs_" + name] += 1
            A, B = lc.parse_report(o0["ok"]["report"]), lc.parse_report(o["ok"]["report"])
            diffs = lc.compare_reports(A, B, exact=True, label=("structs", name))
            if diffs:
                viols.append({"clause": f"report-differs-{name}", "signature": f"report-differs-{name}",
                              "detail": "; ".join(diffs[:3]), "case": case})
    return {"evaluations": len(reqs), "nontrivial_hashes": hashes, "counters": cnt, "violations": cap_viols(viols), "samples": []}


def run_cli(desc):
    """CLI: `report` on the DSL rendering equals the library's JSON report; `parse` output is the JSON rendering."""
    from ..clidrv import Sandbox, ALL_YEARS_TOML
    rng = rng_for(PROP, desc["seed"], "cli", desc["shard"])
    cnt = Counter()
    viols = []
    hashes = set()
    p = probe()
    for _ in range(desc["n"]):
        l, _f = gen_ledger(rng, Opts(capital=True, splits=True, n_sec=(1, 3), steps=(3, 8), currencies=["USD", "EUR"],
                                     start=(dt.date(2016, 1, 1), dt.date(2024, 1, 1)), last_date=dt.date(2026, 3, 1)))
        l = with_twin_line(rng, l)
        od = p.one({"op": "to_dsl", "txs": l})
        oj = p.one({"op": "json_ser", "txs": l})
        lib = p.one(dict(lc.calc_case(l, fx="bundled"), outputs=["json"]))
        with Sandbox(ALL_YEARS_TOML) as sb:
            sb.write("l.cgt", od["ok"] + "\n")
            r1 = sb.run(["report", "l.cgt", "--format", "json"])
            r2 = sb.run(["parse", "l.cgt"])
        cnt["cli_ledgers"] += 1
        hashes.add(sha(l)[:16])
        case = {"op": "reports", "txs": l}
        if ("ok" in lib) != (r1["exit"] == 0):
            viols.append({"clause": "cli-report-acceptance-differs", "signature": "cli-report-acceptance-differs",
                          "detail": f"library {str(lib.get('err'))[:100]} cli exit {r1['exit']} {r1['stderr'][:100]}", "case": case})
        elif "ok" in lib:
            a = json.loads(lib["ok"]["json"])
            b = json.loads(r1["stdout"])
            if a != b:
                viols.append({"clause": "cli-report-differs-from-library", "signature": "cli-report-differs-from-library",
                              "detail": "JSON report of the DSL rendering through the CLI differs from the library's", "case": case})
            cnt["cli_reports_compared"] += 1
        if r2["exit"] != 0 or r2["stdout"].decode().rstrip("\n") != oj["ok"].rstrip("\n"):
            # zero fees lose their currency in the DSL; compare as data
            try:
                same = all(not same_tx(x, y) for x, y in zip(
                    p.one({"op": "json_de", "text": r2["stdout"].decode()})["ok"], l)) and r2["exit"] == 0
            except Exception:
                same = False
            if not same:
                viols.append({"clause": "cli-parse-is-not-the-json-rendering", "signature": "cli-parse-is-not-the-json-rendering",
                              "detail": f"exit {r2['exit']} {r2['stderr'][:150]}", "case": case})
        cnt["cli_parse_compared"] += 1
    return {"evaluations": cnt["cli_ledgers"] * 2, "nontrivial_hashes": hashes, "counters": cnt, "violations": cap_viols(viols), "samples": []}


def run_mcp(desc):
    """MCP: parse_transactions(DSL) -> JSON -> convert_to_dsl -> DSL' reproduces the list; calculate_report on the
    DSL rendering and on the JSON rendering give the same answer, equal to the library's JSON report."""
    from ..mcpdrv import Session, call, check_history
    rng = rng_for(PROP, desc["seed"], "mcp", desc["shard"])
    cnt = Counter()
    viols = []
    hashes = set()
    p = probe()
    sess = Session()
    items = []
    rid = 0
    for _ in range(desc["n"]):
        l, _f = gen_ledger(rng, Opts(capital=True, splits=True, n_sec=(1, 2), steps=(2, 7), currencies=["USD", "EUR"],
                                     start=(dt.date(2016, 1, 1), dt.date(2024, 1, 1)), last_date=dt.date(2026, 3, 1)))
        l = with_twin_line(rng, l)
        dsl = p.one({"op": "to_dsl", "txs": l})["ok"]
        js = p.one({"op": "json_ser", "txs": l})["ok"]
        ids = {}
        for name, tool, text in (("parse_dsl", "parse_transactions", dsl), ("parse_json", "parse_transactions", js),
                                 ("to_dsl", "convert_to_dsl", js), ("calc_dsl", "calculate_report", dsl),
                                 ("calc_json", "calculate_report", js)):
            rid += 1
            ids[name] = rid
            sess.send([call(rid, tool, {"transactions": text})])
        items.append((l, ids))
    allids = [i for _, ids in items for i in ids.values()]
    sess.wait_for(allids, 180)
    end = sess.finish()
    hv, stats, resp = check_history(sess, end)
    for name, detail in hv:
        viols.append({"clause": "mcp-" + name, "signature": "mcp-" + name, "detail": detail, "case": {"op": "mcp"}})

    def text_of(i):
        a = resp.get(Session.idkey(i))
        try:
            return a["result"]["content"][0]["text"]
        except Exception:
            return None
    for l, ids in items:
        cnt["mcp_ledgers"] += 1
        hashes.add(sha(l)[:16])
        case = {"op": "roundtrip", "txs": l}
        for name in ("parse_dsl", "parse_json"):
            t = text_of(ids[name])
            back = p.one({"op": "json_de", "text": t or ""})
            if t is None or "ok" not in back or len(back["ok"]) != len(l) or any(same_tx(x, y) for x, y in zip(l, back["ok"])):
                viols.append({"clause": "mcp-parse-changes-transactions", "signature": "mcp-parse-changes-transactions:" + name,
                              "detail": str(resp.get(Session.idkey(ids[name])))[:200], "case": case})
            else:
                cnt["mcp_parse_roundtrips"] += 1
        t = text_of(ids["to_dsl"])
        back = p.one({"op": "parse", "text": t or ""})
        if t is None or "ok" not in back or len(back["ok"]) != len(l) or any(same_tx(x, y) for x, y in zip(l, back["ok"])):
            viols.append({"clause": "mcp-convert-to-dsl-changes-transactions", "signature": "mcp-convert-to-dsl-changes-transactions",
                          "detail": str(t)[:200], "case": case})
        else:
            cnt["mcp_convert_roundtrips"] += 1
        a, b = text_of(ids["calc_dsl"]), text_of(ids["calc_json"])
        lib = p.one(dict(lc.calc_case(l, fx="bundled", exemptions=lc.ALL_YEARS), outputs=["json"]))
        if (a is None) != (b is None) or (a is not None and json.loads(a) != json.loads(b)):
            viols.append({"clause": "mcp-report-differs-between-dsl-and-json-input", "signature": "mcp-report-differs-between-dsl-and-json-input",
                          "detail": "", "case": case})
        if ("ok" in lib) != (a is not None):
            viols.append({"clause": "mcp-report-acceptance-differs-from-library", "signature": "mcp-report-acceptance-differs-from-library",
                          "detail": str(lib.get("err"))[:150], "case": case})
        elif a is not None:
            want = json.loads(lib["ok"]["json"])
            got = json.loads(a)
            if got["tax_years"] != want["tax_years"] or got["holdings"] != want["holdings"]:
                viols.append({"clause": "mcp-report-differs-from-library", "signature": "mcp-report-differs-from-library", "detail": "", "case": case})
            else:
                cnt["mcp_reports_equal_library"] += 1
    return {"evaluations": len(allids), "nontrivial_hashes": hashes, "counters": cnt, "violations": cap_viols(viols), "samples": []}


def run_shard(desc):
    if desc["kind"] == "mcp":
        return run_mcp(desc)
    return {"lists": run_lists, "currencies": run_currencies, "reports": run_reports, "cli": run_cli}[desc["kind"]](desc)


def replay(case):
    p = probe()
    l = case["txs"]
    od = p.one({"op": "to_dsl", "txs": l})
    bd = p.one({"op": "parse", "text": od.get("ok", "")})
    oj = p.one({"op": "json_ser", "txs": l})
    bj = p.one({"op": "json_de", "text": oj.get("ok", "")})
    vs = []
    for name, b in (("dsl", bd), ("json", bj)):
        if "ok" not in b:
            vs.append({"clause": f"{name}-rendering-not-readable", "signature": f"{name}-rendering-not-readable", "detail": str(b)[:300]})
        elif len(b["ok"]) != len(l) or any(same_tx(x, y) for x, y in zip(l, b["ok"])):
            vs.append({"clause": f"{name}-roundtrip-changes-transaction", "signature": f"{name}-roundtrip-changes-transaction",
                       "detail": str([same_tx(x, y) for x, y in zip(l, b["ok"]) if same_tx(x, y)][:2])})
    return vs, {"dsl": od, "parsed": bd, "json": oj}


def finalize(total, tier, seed):
    total.setdefault("extra_coverage", {})["exhaustive_subspaces"] = [
        "every currency code iso_currency knows, on price, fees, total and tax, through DSL and JSON round trips"]


THRESHOLDS = {"lists": 1500, "currency_codes": 150, "report_pairs_dsl": 500, "report_pairs_json": 500,
              "scale_28": 50, "scale_00": 500, "kind_UNSPLIT": 300, "cli_reports_compared": 20,
              "mcp_parse_roundtrips": 60, "mcp_reports_equal_library": 20}
RULE = ("random transaction lists of all seven kinds (decimal literals of every scale 0-28 incl. the 96-bit maximum, "
        "trailing zeros and 1e-28; every known currency code; keyword-/number-/currency-looking tickers; years "
        "0001-9999; zero and non-zero optional clauses) through to_dsl->parse, to_json->from_json and the idempotence "
        "check; plus generated ledgers reported from structs, from the DSL rendering and from the JSON rendering "
        "(library and CLI); distinct by list hash")
