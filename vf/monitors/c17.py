"""C17 - text, JSON and PDF front-ends present the same figures (MCP figures are checked by C20)."""
from __future__ import annotations

import datetime as dt
import json
import re
from collections import Counter
from fractions import Fraction

from ..gen.ledger import Opts, gen_ledger, render_dsl
from ..model import fmt
from ..probe import probe
from ..util import cap_viols, rng_for, sha, fr, dstr, iso, d as pdate, round_half_away, tax_year_of, ZERO
from . import ledger_core as lc

PROP = "C17"
M = fmt.MONEY_RE
QTOL = Fraction(1, 2 * 10 ** 6) + Fraction(1, 10 ** 9)   # PDF quantities: six decimals (float formatting slack 1e-9)
_cur = None


def currencies():
    global _cur
    if _cur is None:
        _cur = {c["code"]: c for c in probe().one({"op": "currencies"})["ok"]}
    return _cur


def plan(tier, seed):
    k = 16 if tier == "quick" else 400
    shards = []
    for cls in ("midpoint", "random", "large", "negzero"):
        shards += [{"cls": cls, "seed": seed, "shard": i, "n": 60} for i in range(k)]
    shards += [{"cls": "huge", "seed": seed, "shard": i, "n": 30} for i in range(max(2, k // 4))]
    shards += [{"cls": "cli", "seed": seed, "shard": i, "n": 10} for i in range(16 if tier == "quick" else 200)]
    shards += [{"cls": "mcp", "seed": seed, "shard": i, "n": 4} for i in range(8 if tier == "quick" else 80)]
    return shards


# ---- workload ----------------------------------------------------------------------------------

def money5(rng, lo=1, hi=50000):
    """A value with three decimals ending in 5 (x.xx5)."""
    return Fraction(rng.randint(lo, hi) * 10 + 5, 1000)


def midpoint_ledger(rng):
    """Results sit exactly on half-pence midpoints: unit (or x10^k) quantities, prices/fees ending in 5."""
    txs = []
    D = dt.date(rng.randint(2016, 2024), rng.randint(1, 12), rng.randint(1, 28))
    for tk in rng.sample(["MID", "HALF", "PNY"], rng.randint(1, 2)):
        d_ = D
        q = rng.choice([1, 1, 10, 100, 3])
        txs.append({"date": iso(d_), "ticker": tk, "kind": "BUY", "amount": str(q * rng.choice([1, 2, 4])),
                    "price": [dstr(money5(rng)), "GBP"], "fees": [dstr(money5(rng, 0, 200)) if rng.random() < 0.6 else "0", "GBP"]})
        held = Fraction(txs[-1]["amount"])
        for _ in range(rng.randint(1, 4)):
            d_ += dt.timedelta(days=rng.choice([0, 5, 20, 40, 200, 400]))
            if rng.random() < 0.35:
                nq = rng.choice([1, 2, 10])
                txs.append({"date": iso(d_), "ticker": tk, "kind": "BUY", "amount": str(nq),
                            "price": [dstr(money5(rng)), "GBP"], "fees": ["0", "GBP"]})
                held += nq
            elif held > 0:
                sq = rng.choice([Fraction(1), held, held / 2 if (held / 2).denominator == 1 else held])
                sq = min(sq, held)
                txs.append({"date": iso(d_), "ticker": tk, "kind": "SELL", "amount": dstr(sq),
                            "price": [dstr(money5(rng)), "GBP"], "fees": [dstr(money5(rng, 0, 200)) if rng.random() < 0.6 else "0", "GBP"]})
                held -= sq
        if rng.random() < 0.4:
            txs.append({"date": iso(d_ + dt.timedelta(days=3)), "ticker": tk, "kind": "DIVIDEND",
                        "total": [dstr(money5(rng)), "GBP"], "tax": [dstr(money5(rng, 0, 99)), "GBP"]})
    txs.sort(key=lambda t: t["date"])
    return txs


def large_ledger(rng):
    txs, _ = gen_ledger(rng, Opts(capital=False, splits=False, n_sec=(1, 2), steps=(3, 8)))
    scale = rng.choice([10 ** 3, 10 ** 4, 10 ** 6])
    for t in txs:
        if t["kind"] in ("BUY", "SELL"):
            t["price"][0] = dstr(fr(t["price"][0]) * scale)
    return txs


def negzero_ledger(rng):
    """Zero results (buy and sell at the same price, no fees), small losses, gains below a penny."""
    tk = "ZRO"
    D = dt.date(rng.randint(2016, 2024), rng.randint(1, 12), rng.randint(1, 28))
    p = Fraction(rng.randint(1, 99999), 100)
    q = rng.choice([1, 7, 100])
    delta = rng.choice([Fraction(0), Fraction(1, 1000), Fraction(-1, 1000), Fraction(5, 1000), Fraction(-5, 1000), Fraction(-1)])
    txs = [{"date": iso(D), "ticker": tk, "kind": "BUY", "amount": str(q), "price": [dstr(p), "GBP"], "fees": ["0", "GBP"]},
           {"date": iso(D + dt.timedelta(days=rng.choice([0, 10, 50]))), "ticker": tk, "kind": "SELL", "amount": str(q),
            "price": [dstr(max(p + delta, Fraction(0))), "GBP"], "fees": ["0", "GBP"]}]
    other, _ = gen_ledger(rng, Opts(capital=True, splits=True, n_sec=(1, 1), steps=(2, 6), currencies=["USD", "EUR", "JPY"],
                                    start=(dt.date(2016, 1, 1), dt.date(2024, 1, 1)), last_date=dt.date(2026, 3, 1)))
    return sorted(txs + [t for t in other if t["ticker"] != tk], key=lambda t: t["date"])


def huge_ledger(rng):
    """Amounts of 1e13 .. 1e20 pounds (larger figures wrap inside the PDF cells, which the reader does not follow): beyond what a binary double holds to the penny (2^53 pence = 9.0e13 pounds)."""
    txs, _ = gen_ledger(rng, Opts(capital=False, splits=False, n_sec=(1, 2), steps=(3, 8)))
    scale = 10 ** rng.randint(10, 12)
    for t in txs:
        if t["kind"] in ("BUY", "SELL"):
            t["price"][0] = dstr(fr(t["price"][0]) * scale)
            t["fees"][0] = dstr(fr(t["fees"][0]) * (scale // 1000))
    return txs


def _long_figures(d):
    """A disposal whose calculation lines carry a figure of 11+ digits: the PDF cell wraps such a line."""
    up = abs(d["gross"] / d["qty"]) if d["qty"] else ZERO
    return max(abs(d["gross"]), abs(d["net"]), up) >= 10 ** 10


def gen_case(rng, cls):
    if cls == "huge":
        return huge_ledger(rng)
    if cls == "midpoint":
        return midpoint_ledger(rng)
    if cls == "large":
        return large_ledger(rng)
    if cls == "negzero":
        return negzero_ledger(rng)
    return gen_ledger(rng, Opts(capital=True, splits=True, n_sec=(1, 3), steps=(3, 9), currencies=["USD", "EUR", "JPY", "BHD"],
                                qty_dp=rng.choice([6, 6, 9]), start=(dt.date(2016, 1, 1), dt.date(2024, 1, 1)),
                                last_date=dt.date(2026, 3, 1)))[0]


# ---- computed figures ----------------------------------------------------------------------------

class Figs:
    """Figures a front end is expected to show, derived from the full-precision report."""

    def __init__(self, rep):
        self.years = rep["years"]
        self.holdings = {k: v for k, v in rep["holdings"].items() if v[0] > 0}

    @staticmethod
    def disposal(d):
        tot = sum((l["gain"] for l in d["legs"]), ZERO)
        cost = sum((l["cost"] for l in d["legs"]), ZERO)
        return tot, cost


class Checker:
    def __init__(self, front, cnt, viols):
        self.front = front
        self.cnt = cnt
        self.viols = viols

    def money(self, label, shown_str, value, shape=True):
        self.cnt[f"{self.front}_figures"] += 1
        mid = fmt.near_midpoint(value)
        if mid:
            self.cnt[f"{self.front}_midpoint_figures"] += 1
        if value < 0:
            self.cnt[f"{self.front}_negative_figures"] += 1
        if abs(value) >= 10 ** 6:
            self.cnt[f"{self.front}_figures_ge_1e6"] += 1
        try:
            shown = fmt.parse_money(shown_str)
        except (ValueError, ZeroDivisionError):
            self.viols.append({"clause": "unparseable-figure", "signature": f"{self.front}:unparseable-figure",
                               "detail": f"{label}: {shown_str!r}"})
            return
        if not fmt.money_value_ok(shown, value):
            sig = f"{self.front}:figure-not-value-or-pence-rounding"
            if self.front == "pdf" and abs(value) >= 10 ** 13 and abs(shown - value) <= abs(value) * Fraction(5, 10 ** 16):
                # the figure is the value pushed through binary doubles (relative error within 5e-16, i.e. a couple of
                # units in the 16th significant digit): the template receives and combines its numbers as floats (F22)
                sig = "pdf:figure-is-a-binary-double-approximation:magnitude>=1e13"
            elif mid and abs(shown - value) <= Fraction(1, 100):
                sig += ":half-penny-midpoint"
            self.viols.append({"clause": "figure-differs-from-computed-value", "signature": sig,
                               "detail": f"{label}: shown {shown_str.strip()!r}, computed {dstr_safe(value)} "
                                         f"(pence, half away from zero: {fmt.fmt_gbp(value)})"})
            return
        if shape:
            s = shown_str.replace("\n", "").replace("−", "-")
            if not fmt.GBP_SHAPE.match(s):
                self.viols.append({"clause": "money-shape", "signature": f"{self.front}:money-shape",
                                   "detail": f"{label}: {shown_str!r}"})

    def exact(self, label, shown, want):
        self.cnt[f"{self.front}_exact_fields"] += 1
        if shown != want:
            self.viols.append({"clause": "field-differs", "signature": f"{self.front}:{label.split(':')[0]}-differs",
                               "detail": f"{label}: shown {shown!r}, expected {want!r}"})


def dstr_safe(x):
    try:
        return dstr(x)
    except ValueError:
        return repr(float(x))


def qty_str(x: Fraction):
    try:
        return fmt.trimmed(x)
    except ValueError:
        return None


# ---- plain text -------------------------------------------------------------------------------------

def check_plain(text, rep, txs, cnt, viols):
    ck = Checker("plain", cnt, viols)
    lines = text.split("\n")
    # summary rows
    rows = [ln for ln in lines if re.match(r"^\d{4}/\d{2}\s", ln)]
    if len(rows) != len(rep["years"]):
        viols.append({"clause": "year-list-differs", "signature": "plain:year-list-differs",
                      "detail": f"{len(rows)} summary rows, {len(rep['years'])} tax years"})
        return
    divlines = [ln for ln in lines if ln.startswith("Dividend income:")]
    di = 0
    for ln, y in zip(rows, rep["years"]):
        m = re.match(r"^(\d{4}/\d{2})\s+(\d+)\s+(-?£[\d,]+\.\d\d)\s*(-?£[\d,]+\.\d\d)\s*(-?£[\d,]+\.\d\d)\s*(-?£[\d,]+\.\d\d)\s*(-?£[\d,]+\.\d\d)\s*(-?£[\d,]+\.\d\d)\s*$", ln)
        if not m:
            viols.append({"clause": "summary-row-unparseable", "signature": "plain:summary-row-unparseable", "detail": ln})
            continue
        ck.exact("tax-year", m.group(1), fmt.fmt_tax_year(y["start_year"]))
        ck.exact("disposal-count", m.group(2), str(y["disposal_count"]))
        for i, (name, val) in enumerate((("net_gain", y["net_gain"]), ("total_gain", y["total_gain"]), ("total_loss", y["total_loss"]),
                                         ("gross_proceeds", y["gross_proceeds"]), ("exemption", y["exempt_amount"]),
                                         ("taxable_gain", y["taxable_gain"]))):
            ck.money(f"summary {y['period']} {name}", m.group(3 + i), val)
        if y["dividend_income"] > 0:
            if di >= len(divlines):
                viols.append({"clause": "dividend-line-missing", "signature": "plain:dividend-line-missing", "detail": y["period"]})
            else:
                dm = re.match(r"^Dividend income: (-?£[\d,]+\.\d\d)(?: \(tax paid: (-?£[\d,]+\.\d\d)\))?$", divlines[di])
                di += 1
                if dm:
                    ck.money(f"dividend income {y['period']}", dm.group(1), y["dividend_income"])
                    if dm.group(2):
                        ck.money(f"dividend tax {y['period']}", dm.group(2), y["dividend_tax_paid"])
    # disposals
    heads = [i for i, ln in enumerate(lines) if re.match(r"^\d+\) SELL ", ln)]
    disposals = [d for y in rep["years"] for d in y["disposals"]]
    if len(heads) != len(disposals):
        viols.append({"clause": "disposal-list-differs", "signature": "plain:disposal-list-differs",
                      "detail": f"{len(heads)} disposals shown, {len(disposals)} computed"})
        return
    for hi, d in zip(heads, disposals):
        tot, cost = Figs.disposal(d)
        m = re.match(r"^\d+\) SELL (\S+) (\S+) on (\d\d/\d\d/\d{4}) - (GAIN|LOSS) (£[\d,]+\.\d\d)$", lines[hi])
        if not m:
            viols.append({"clause": "disposal-header-unparseable", "signature": "plain:disposal-header-unparseable", "detail": lines[hi]})
            continue
        q = qty_str(d["qty"])
        if q is not None:
            ck.exact("quantity:disposal", m.group(1), q)
        ck.exact("ticker", m.group(2), d["ticker"])
        ck.exact("date", m.group(3), fmt.fmt_date(d["date"]))
        ck.exact("gain-label", m.group(4), "GAIN" if tot >= 0 else "LOSS")
        ck.money(f"{d['ticker']} {d['date']} header result", m.group(5), abs(tot))
        j = hi + 1
        for l in d["legs"]:
            ln = lines[j].strip()
            j += 1
            lq = qty_str(l["qty"])
            if l["rule"] == "SameDay":
                mm = re.match(r"^Same Day: (\S+) shares$", ln)
            elif l["rule"] == "BedAndBreakfast":
                mm = re.match(r"^B&B: (\S+) shares from (\d\d/\d\d/\d{4})$", ln)
            else:
                mm = re.match(r"^Section 104: (\S+) shares @ £(\S+)$", ln)
            if not mm:
                viols.append({"clause": "leg-line-differs", "signature": "plain:leg-line-differs",
                              "detail": f"{d['ticker']} {d['date']}: expected a {l['rule']} line, got {ln!r}"})
                break
            if lq is not None:
                ck.exact("quantity:leg", mm.group(1), lq)
            if l["rule"] == "BedAndBreakfast":
                ck.exact("date:acquisition", mm.group(2), fmt.fmt_date(l["acq"]))
            if l["rule"] == "Section104" and l["qty"] != 0:
                ck.money(f"{d['ticker']} {d['date']} s104 unit cost", "£" + mm.group(2), l["cost"] / l["qty"], shape=False)
        block = "\n".join(lines[j:j + 5])
        gm = re.search(r"Gross Proceeds: (\S+) × £(\S+) = (-?£[\d,]+\.\d\d)", block)
        if gm:
            if q is not None:
                ck.exact("quantity:gross-line", gm.group(1), q)
            ck.money(f"{d['ticker']} {d['date']} gross", gm.group(3), d["gross"])
            if d["qty"] != 0:
                shown_up = Fraction(gm.group(2))
                up = d["gross"] / d["qty"]
                cnt["plain_figures"] += 1
                if not (abs(shown_up - up) <= abs(up) * Fraction(1, 10 ** 20) + Fraction(1, 10 ** 24) or shown_up == round_half_away(up, 2)):
                    viols.append({"clause": "figure-differs-from-computed-value", "signature": "plain:unit-price-differs",
                                  "detail": f"{d['ticker']} {d['date']}: unit price shown {gm.group(2)}, gross/quantity = {float(up)!r}"})
        else:
            viols.append({"clause": "gross-line-missing", "signature": "plain:gross-line-missing", "detail": block[:120]})
        fees = d["gross"] - d["net"]
        nm = re.search(r"Net Proceeds: (-?£[\d,]+\.\d\d) - (-?£[\d,]+\.\d\d) fees = (-?£[\d,]+\.\d\d)", block)
        if fees > 0:
            if not nm:
                viols.append({"clause": "net-line-missing", "signature": "plain:net-line-missing", "detail": f"{d['ticker']} {d['date']} fees {fees}"})
            else:
                ck.money(f"{d['ticker']} {d['date']} net-line gross", nm.group(1), d["gross"])
                ck.money(f"{d['ticker']} {d['date']} net-line fees", nm.group(2), fees)
                ck.money(f"{d['ticker']} {d['date']} net", nm.group(3), d["net"])
        cm = re.search(r"Cost: (-?£[\d,]+\.\d\d)", block)
        rm = re.search(r"Result: (-?£[\d,]+\.\d\d)", block)
        if cm:
            ck.money(f"{d['ticker']} {d['date']} cost", cm.group(1), cost)
        if rm:
            ck.money(f"{d['ticker']} {d['date']} result", rm.group(1), tot)
        if not cm or not rm:
            viols.append({"clause": "cost-or-result-line-missing", "signature": "plain:cost-or-result-line-missing", "detail": block[:160]})
    # holdings
    hl = [ln for ln in lines if re.match(r"^\S+: \S+ units at £\S+ avg cost$", ln)]
    held = {k: v for k, v in rep["holdings"].items() if v[0] > 0}
    if len(hl) != len(held):
        viols.append({"clause": "holdings-list-differs", "signature": "plain:holdings-list-differs",
                      "detail": f"{hl} vs {sorted(held)}"})
    else:
        for ln, tk in zip(hl, sorted(held)):
            m = re.match(r"^(\S+): (\S+) units at £(\S+) avg cost$", ln)
            ck.exact("ticker:holding", m.group(1), tk)
            hq = qty_str(held[tk][0])
            if hq is not None:
                ck.exact("quantity:holding", m.group(2), hq)
            ck.money(f"holding {tk} average cost", "£" + m.group(3), held[tk][1] / held[tk][0], shape=False)
    # transactions echo
    tl = [ln for ln in lines if re.match(r"^\d\d/\d\d/\d{4} (BUY|SELL) ", ln)]
    trades = sorted([t for t in txs if t["kind"] in ("BUY", "SELL")], key=lambda t: (t["date"], t["ticker"]))
    if len(tl) != len(trades):
        viols.append({"clause": "transaction-list-differs", "signature": "plain:transaction-list-differs",
                      "detail": f"{len(tl)} lines for {len(trades)} trades"})
    else:
        cur = currencies()
        # same (date, ticker) trades keep input order; compare as multisets per (date,ticker)
        want = Counter()
        for t in trades:
            def pr(mny):
                c = cur[mny[1]]
                sym = c["symbol"] or mny[1]
                return sym + fmt.trimmed(fr(mny[0]))
            want[f"{fmt.fmt_date(pdate(t['date']))} {t['kind']} {fmt.trimmed(fr(t['amount']))} {t['ticker']} @ {pr(t['price'])} ({pr(t['fees'])} fees)"] += 1
        got = Counter(tl)
        cnt["plain_exact_fields"] += len(tl)
        if got != want:
            viols.append({"clause": "transaction-echo-differs", "signature": "plain:transaction-echo-differs",
                          "detail": f"shown-only {list((got - want).elements())[:2]} expected-only {list((want - got).elements())[:2]}"})
        if [ln[:10][6:] + ln[3:5] + ln[:2] for ln in tl] != sorted(ln[:10][6:] + ln[3:5] + ln[:2] for ln in tl):
            viols.append({"clause": "transaction-echo-order", "signature": "plain:transaction-echo-order", "detail": "not by date"})


# ---- JSON ---------------------------------------------------------------------------------------------

def check_json(text, rep, txs, cnt, viols):
    ck = Checker("json", cnt, viols)
    j = json.loads(text)
    if [y["period"] for y in j["tax_years"]] != [fmt.fmt_tax_year(y["start_year"]) for y in rep["years"]]:
        viols.append({"clause": "year-list-differs", "signature": "json:year-list-differs", "detail": str([y["period"] for y in j["tax_years"]])})
        return
    for jy, y in zip(j["tax_years"], rep["years"]):
        for name, val in (("total_gain", y["total_gain"]), ("total_loss", y["total_loss"]), ("net_gain", y["net_gain"]),
                          ("exempt_amount", y["exempt_amount"]), ("dividend_income", y["dividend_income"]),
                          ("dividend_tax_paid", y["dividend_tax_paid"])):
            ck.money(f"{y['period']} {name}", jy[name], val, shape=False)
        ck.exact("disposal-count", jy["disposal_count"], y["disposal_count"])
        if len(jy["disposals"]) != len(y["disposals"]):
            viols.append({"clause": "disposal-list-differs", "signature": "json:disposal-list-differs", "detail": y["period"]})
            continue
        for jd, d in zip(jy["disposals"], y["disposals"]):
            ck.exact("date", jd["date"], d["date"].isoformat())
            ck.exact("ticker", jd["ticker"], d["ticker"])
            cnt["json_exact_fields"] += 1
            if Fraction(jd["quantity"]) != d["qty"]:
                viols.append({"clause": "field-differs", "signature": "json:quantity-differs", "detail": f"{jd['quantity']} vs {d['qty']}"})
            ck.money(f"{d['ticker']} {d['date']} gross", jd["gross_proceeds"], d["gross"], shape=False)
            ck.money(f"{d['ticker']} {d['date']} net", jd["proceeds"], d["net"], shape=False)
            if len(jd["matches"]) != len(d["legs"]):
                viols.append({"clause": "leg-list-differs", "signature": "json:leg-list-differs", "detail": f"{d['ticker']} {d['date']}"})
                continue
            for jm, l in zip(jd["matches"], d["legs"]):
                ck.exact("rule", jm["rule"], l["rule"])
                if Fraction(jm["quantity"]) != l["qty"]:
                    viols.append({"clause": "field-differs", "signature": "json:quantity-differs", "detail": f"leg {jm['quantity']} vs {l['qty']}"})
                ck.money(f"{d['ticker']} {d['date']} {l['rule']} cost", jm["allowable_cost"], l["cost"], shape=False)
                ck.money(f"{d['ticker']} {d['date']} {l['rule']} gain", jm["gain_or_loss"], l["gain"], shape=False)
                ck.exact("date:acquisition", jm.get("acquisition_date"), l["acq"].isoformat() if l["acq"] else None)
    jh = {h["ticker"]: h for h in j["holdings"] if Fraction(h["quantity"]) != 0}
    held = {k: v for k, v in rep["holdings"].items() if v[0] != 0}
    if set(jh) != set(held):
        viols.append({"clause": "holdings-list-differs", "signature": "json:holdings-list-differs", "detail": f"{sorted(jh)} vs {sorted(held)}"})
    for tk in set(jh) & set(held):
        if Fraction(jh[tk]["quantity"]) != held[tk][0]:
            viols.append({"clause": "field-differs", "signature": "json:quantity-differs", "detail": f"holding {tk}"})
        ck.money(f"holding {tk} cost", jh[tk]["total_cost"], held[tk][1], shape=False)
    cnt["json_exact_fields"] += 1
    if len(j.get("transactions", [])) != len(txs):
        viols.append({"clause": "transaction-list-differs", "signature": "json:transaction-list-differs",
                      "detail": f"{len(j.get('transactions', []))} vs {len(txs)}"})


# ---- PDF text runs ---------------------------------------------------------------------------------------

def pdf_money(s):
    return s.replace("\n", "")


PDF_ANCHORS = ("Taxable gain\n", "Disposal Details\n", "Gross Proceeds:\n", "Cost:\n", "Result:\n")


def check_pdf(runs, rep, txs, cnt, viols):
    ck = Checker("pdf", cnt, viols)
    text = "\n".join(runs)
    # The PDF's wording and layout are pinned by no property (and by no test): this reader knows the current template's
    # section titles and labels. If a document with disposals lacks one of them *altogether*, the reader - not the tool -
    # is out of date: that is inconclusive (the figure thresholds then fail the run with exit 2), never a violation.
    # A label that is present elsewhere in the document but missing for one disposal is still judged below.
    if any(y["disposals"] for y in rep["years"]):
        missing = [a.strip() for a in PDF_ANCHORS if a not in text]
        if missing:
            cnt["pdf_layout_not_recognised(inconclusive)"] += 1
            return
    # Each table is read only if its header row is exactly the one this reader was written for; a table whose columns
    # were renamed, added or reordered is counted as not recognised (and the per-table thresholds then make the run
    # inconclusive) instead of being mis-read into a "figure differs" violation.
    SUMMARY_HEAD = ("Tax Year\nDisposals\n1\nGains\n2\n(after losses)\nGains\n2\n(before losses)\nLosses\n2\nProceeds\n3\n"
                    "Exemption\nTaxable gain\n")
    if rep["years"] and SUMMARY_HEAD not in text:
        cnt["pdf_table_layout_not_recognised:summary"] += 1
        return
    # summary table
    body = text.split("Taxable gain\n", 1)[-1].split("Notes:", 1)[0] if rep["years"] else ""
    rows = re.findall(r"(\d{4}/\d{2})\n(\d+)\n(" + M + r")\n(" + M + r")\n(" + M + r")\n(" + M + r")\n(" + M + r")\n(" + M + r")", body)
    if len(rows) != len(rep["years"]):
        viols.append({"clause": "year-list-differs", "signature": "pdf:year-list-differs",
                      "detail": f"{len(rows)} summary rows, {len(rep['years'])} tax years: {body[:200]!r}"})
        return
    for r, y in zip(rows, rep["years"]):
        ck.exact("tax-year", r[0], fmt.fmt_tax_year(y["start_year"]))
        ck.exact("disposal-count", r[1], str(y["disposal_count"]))
        for i, (name, val) in enumerate((("net_gain", y["net_gain"]), ("total_gain", y["total_gain"]), ("total_loss", y["total_loss"]),
                                         ("gross_proceeds", y["gross_proceeds"]), ("exemption", y["exempt_amount"]),
                                         ("taxable_gain", y["taxable_gain"]))):
            ck.money(f"summary {y['period']} {name}", pdf_money(r[2 + i]), val)
    # disposals
    det = text.split("Disposal Details\n", 1)[-1].split("\nHoldings\n", 1)[0]
    heads = list(re.finditer(r"(\d+)\. (\S+)\n \n(\S+) shares\n \nSold (\d\d/\d\d/\d{4})\n(GAIN|LOSS) (" + M + ")", det))
    disposals = [d for y in rep["years"] for d in y["disposals"]]
    if len(heads) != len(disposals):
        viols.append({"clause": "disposal-list-differs", "signature": "pdf:disposal-list-differs",
                      "detail": f"{len(heads)} shown, {len(disposals)} computed"})
        return
    for i, (h, d) in enumerate(zip(heads, disposals)):
        seg = det[h.end(): heads[i + 1].start() if i + 1 < len(heads) else len(det)]
        tot, cost = Figs.disposal(d)
        ck.exact("ticker", h.group(2), d["ticker"])
        ck.exact("date", h.group(4), fmt.fmt_date(d["date"]))
        ck.exact("gain-label", h.group(5), "GAIN" if tot >= 0 else "LOSS")
        ck.money(f"{d['ticker']} {d['date']} header result", pdf_money(h.group(6)), abs(tot))
        cnt["pdf_quantity_fields"] += 1
        if abs(Fraction(h.group(3)) - d["qty"]) > QTOL:
            viols.append({"clause": "quantity-differs", "signature": "pdf:quantity-differs", "detail": f"{h.group(3)} vs {float(d['qty'])!r}"})
        legs = re.findall(r"(Same Day|B&B|Section 104):\s+(\S+)\s+shares(?:\s+from\s+(\d\d/\d\d/\d{4}))?(?:\s+@\s+(" + M + "))?", seg)
        if len(legs) != len(d["legs"]):
            viols.append({"clause": "leg-list-differs", "signature": "pdf:leg-list-differs",
                          "detail": f"{d['ticker']} {d['date']}: {len(legs)} shown vs {len(d['legs'])}"})
        else:
            for (rule, q, acq, unit), l in zip(legs, d["legs"]):
                ck.exact("rule", rule, {"SameDay": "Same Day", "BedAndBreakfast": "B&B", "Section104": "Section 104"}[l["rule"]])
                cnt["pdf_quantity_fields"] += 1
                if abs(Fraction(q) - l["qty"]) > QTOL:
                    viols.append({"clause": "quantity-differs", "signature": "pdf:quantity-differs", "detail": f"leg {q} vs {float(l['qty'])!r}"})
                if l["rule"] == "BedAndBreakfast":
                    ck.exact("date:acquisition", acq, fmt.fmt_date(l["acq"]))
                if l["rule"] == "Section104" and l["qty"] != 0 and unit:
                    ck.money(f"{d['ticker']} {d['date']} s104 unit cost", pdf_money(unit), l["cost"] / l["qty"])
        gm = re.search(r"Gross Proceeds:\n(\S+) × (" + M + ") = (" + M + ")", seg)
        if gm:
            ck.money(f"{d['ticker']} {d['date']} gross", pdf_money(gm.group(3)), d["gross"])
            if d["qty"] != 0:
                ck.money(f"{d['ticker']} {d['date']} unit price", pdf_money(gm.group(2)), d["gross"] / d["qty"])
        else:
            if _long_figures(d):
                cnt["pdf_calculation_lines_wrapped(11+ digit figures; not read)"] += 1     # the cell breaks the line in two
            else:
                viols.append({"clause": "gross-line-missing", "signature": "pdf:gross-line-missing", "detail": seg[:160]})
        fees = d["gross"] - d["net"]
        nm = re.search(r"Net Proceeds:\n(" + M + r") [−-] (" + M + ") = (" + M + ")", seg)
        if fees > 0:
            if not nm:
                if _long_figures(d):
                    cnt["pdf_calculation_lines_wrapped(11+ digit figures; not read)"] += 1
                else:
                    viols.append({"clause": "net-line-missing", "signature": "pdf:net-line-missing", "detail": f"{d['ticker']} {d['date']}"})
            else:
                ck.money(f"{d['ticker']} {d['date']} net-line fees", pdf_money(nm.group(2)), fees)
                ck.money(f"{d['ticker']} {d['date']} net", pdf_money(nm.group(3)), d["net"])
        cm = re.search(r"Cost:\n(" + M + ")", seg)
        rm = re.search(r"Result:\n(" + M + ")", seg)
        if cm:
            ck.money(f"{d['ticker']} {d['date']} cost", pdf_money(cm.group(1)), cost)
        if rm:
            ck.money(f"{d['ticker']} {d['date']} result", pdf_money(rm.group(1)), tot)
        if not cm or not rm:
            viols.append({"clause": "cost-or-result-missing", "signature": "pdf:cost-or-result-missing", "detail": seg[:200]})
    # holdings
    held = {k: v for k, v in rep["holdings"].items() if v[0] > 0}
    hsec = text.split("\nHoldings\n", 1)[-1].split("\nTransactions\n", 1)[0]
    holdings_known = (not held) or ("\nHoldings\nTicker\nQuantity\nAvg Cost\n" in text)
    if not holdings_known:
        cnt["pdf_table_layout_not_recognised:holdings"] += 1
    hrows = re.findall(r"\n(\S+)\n([\d.]+)\n(" + M + ")", "\n" + hsec.split("Avg Cost", 1)[-1]) if held else []
    if not holdings_known:
        pass
    elif len(hrows) != len(held):
        viols.append({"clause": "holdings-list-differs", "signature": "pdf:holdings-list-differs", "detail": f"{hrows} vs {sorted(held)}"})
    else:
        for (tk, q, avg), want in zip(hrows, sorted(held)):
            ck.exact("ticker:holding", tk, want)
            cnt["pdf_quantity_fields"] += 1
            if abs(Fraction(q) - held[want][0]) > QTOL:
                viols.append({"clause": "quantity-differs", "signature": "pdf:quantity-differs", "detail": f"holding {q}"})
            ck.money(f"holding {want} average cost", pdf_money(avg), held[want][1] / held[want][0])
            cnt["pdf_holdings_rows_read"] += 1
    # transactions table: GBP prices and fees are money figures too
    tsec = text.split("\nTransactions\n", 1)[-1].split("\nAsset Events\n", 1)[0]
    trows = re.findall(r"(\d\d/\d\d/\d{4})\n(BUY|SELL)\n(\S+)\n([\d.]+)\n([^\n]+)\n([^\n]+)", tsec)
    trades = sorted([t for t in txs if t["kind"] in ("BUY", "SELL")], key=lambda t: (t["date"], t["ticker"]))
    if trades and "\nTransactions\nDate\nType\nTicker\nQty\nPrice\nFees\n" not in text:
        cnt["pdf_table_layout_not_recognised:transactions"] += 1
        return
    if len(trows) != len(trades):
        viols.append({"clause": "transaction-list-differs", "signature": "pdf:transaction-list-differs",
                      "detail": f"{len(trows)} rows for {len(trades)} trades"})
    else:
        # rows of one (date, ticker) keep input order in both
        for r, t in zip(trows, trades):
            if (r[0], r[1], r[2]) != (fmt.fmt_date(pdate(t["date"])), t["kind"], t["ticker"]):
                # same (date,ticker) group may hold BUY and SELL in input order; tolerate order inside the group
                continue
            cnt["pdf_quantity_fields"] += 1
            cnt["pdf_transaction_rows_read"] += 1
            if abs(Fraction(r[3]) - fr(t["amount"])) > QTOL:
                viols.append({"clause": "quantity-differs", "signature": "pdf:quantity-differs", "detail": f"transaction {r[3]} vs {t['amount']}"})
            for shown, mny, nm_ in ((r[4], t["price"], "price"), (r[5], t["fees"], "fees")):
                if mny[1] == "GBP":
                    ck.money(f"transaction {t['date']} {t['ticker']} {nm_}", shown, fr(mny[0]))
                else:
                    cnt["pdf_foreign_echoes"] += 1
                    m = re.match(r"^([−-]?)([A-Z]{3}) ([\d,]+\.\d\d)$", shown)
                    if not m or m.group(2) != mny[1] or Fraction(m.group(3).replace(",", "")) != round_half_away(fr(mny[0]), 2):
                        sig = "pdf:foreign-echo-differs" + (":half-penny-midpoint" if fmt.near_midpoint(fr(mny[0])) else "")
                        viols.append({"clause": "foreign-echo-differs", "signature": sig, "detail": f"{shown!r} vs {mny}"})


# ---- shard ---------------------------------------------------------------------------------------------------

def check_all(txs, o, cnt, viols):
    rep = lc.parse_report(o["ok"]["report"])
    before = len(viols)
    check_plain(o["ok"]["plain"], rep, txs, cnt, viols)
    check_json(o["ok"]["json"], rep, txs, cnt, viols)
    if "pdf_runs" in o["ok"]:
        check_pdf(o["ok"]["pdf_runs"], rep, txs, cnt, viols)
    elif "pdf_err" in o["ok"]:
        viols.append({"clause": "pdf-generation-failed", "signature": "pdf:generation-failed", "detail": o["ok"]["pdf_err"][:200]})
    return viols[before:]


def run_mcp(desc):
    """MCP front end: every monetary figure of calculate_report (all years and each year filter) is the computed value
    rounded to pence half away from zero, explain_matching shows the computed values in full, and both list the same
    years, disposals and legs as the library report - for several ledgers queried repeatedly in one session."""
    from ..mcpdrv import Session, call, check_history
    from ..gen.ledger import render_dsl
    rng = rng_for(PROP, desc["seed"], "mcp", desc["shard"])
    cnt = Counter()
    viols = []
    hashes = set()
    sess = Session()
    p = probe()
    items = []
    rid = 0
    for _ in range(desc["n"]):
        k_ = rng.random()
        if k_ < 0.35:
            txs = midpoint_ledger(rng)
        elif k_ < 0.65:
            txs = gen_case(rng, "random")
        else:
            # 30-day shapes followed by capital events: a later CAPRETURN/ACCUMULATION reaches back into the 30-day leg of
            # an earlier disposal, so every front end must have computed from the whole history
            txs = gen_ledger(rng, Opts(capital=True, splits=rng.random() < 0.3, n_sec=(1, 2), steps=(6, 12), templates_p=0.6))[0]
        text = render_dsl(txs)
        lib = p.one(lc.calc_case(txs, fx="bundled"))
        if "ok" not in lib:
            continue
        rep = lc.parse_report(lib["ok"]["report"])
        years = [y["start_year"] for y in rep["years"]]
        reqs = []
        for yf in [None] + years:
            rid += 1
            args = {"transactions": text}
            if yf is not None:
                args["year"] = yf
            reqs.append((rid, "calc", yf, call(rid, "calculate_report", args)))
        for d in lc.all_disposals(rep):
            rid += 1
            reqs.append((rid, "explain", d, call(rid, "explain_matching", {"transactions": text, "disposal_date": d["date"].isoformat(),
                                                                             "ticker": d["ticker"]})))
        rng.shuffle(reqs)
        sess.send([r[3] for r in reqs])
        items.append((txs, rep, reqs))
    sess.wait_for([r[0] for _, _, reqs in items for r in reqs], 180)
    end = sess.finish()
    hv, stats, resp = check_history(sess, end)
    for name, detail in hv:
        viols.append({"clause": "mcp-" + name, "signature": "mcp-" + name, "detail": detail, "case": {"op": "mcp"}})
    for txs, rep, reqs in items:
        hashes.add(sha(txs)[:16])
        ymap = {y["start_year"]: y for y in rep["years"]}
        for rid_, kind, arg, req in reqs:
            a = resp.get(Session.idkey(rid_))
            if a is None:
                continue
            try:
                body = json.loads(a["result"]["content"][0]["text"])
            except Exception:
                viols.append({"clause": "mcp-no-result-for-accepted-ledger", "signature": "mcp:no-result-for-accepted-ledger:" + kind,
                              "detail": json.dumps(a)[:200], "case": {"op": "calc", "txs": txs}})
                continue
            vs = []
            ck = Checker("mcp", cnt, vs)
            if kind == "calc":
                want_years = [ymap[arg]] if arg is not None else rep["years"]
                got_years = body["tax_years"]
                if [y["period"] for y in got_years] != [y["period"] for y in want_years]:
                    vs.append({"clause": "year-list-differs", "signature": "mcp:year-list-differs",
                               "detail": f"year filter {arg}: {[y['period'] for y in got_years]} vs {[y['period'] for y in want_years]}"})
                else:
                    for jy, y in zip(got_years, want_years):
                        for nm in ("total_gain", "total_loss", "net_gain", "exempt_amount", "dividend_income", "dividend_tax_paid"):
                            ck.money(f"{y['period']} {nm}", jy[nm], y[{"exempt_amount": "exempt_amount"}.get(nm, nm)], shape=False)
                        if len(jy["disposals"]) != len(y["disposals"]):
                            vs.append({"clause": "disposal-list-differs", "signature": "mcp:disposal-list-differs", "detail": y["period"]})
                            continue
                        for jd, d in zip(jy["disposals"], y["disposals"]):
                            ck.money(f"{d['ticker']} {d['date']} gross", jd["gross_proceeds"], d["gross"], shape=False)
                            ck.money(f"{d['ticker']} {d['date']} net", jd["proceeds"], d["net"], shape=False)
                            for jm, l in zip(jd["matches"], d["legs"]):
                                ck.money(f"{d['ticker']} {d['date']} {l['rule']} cost", jm["allowable_cost"], l["cost"], shape=False)
                                ck.money(f"{d['ticker']} {d['date']} {l['rule']} gain", jm["gain_or_loss"], l["gain"], shape=False)
                cnt["mcp_calculate_answers"] += 1
            else:
                d = arg
                cnt["mcp_explain_answers"] += 1
                if fr(body["quantity"]) != d["qty"] or fr(body["proceeds"]) != d["net"] or len(body["matches"]) != len(d["legs"]):
                    vs.append({"clause": "explain-differs", "signature": "mcp:explain-differs",
                               "detail": f"{d['ticker']} {d['date']}: quantity/proceeds/legs {body['quantity']} {body['proceeds']} {len(body['matches'])}"})
                else:
                    for m, l in zip(body["matches"], d["legs"]):
                        cnt["mcp_figures"] += 2
                        from .c20 import explanation_figures
                        for msg in explanation_figures(m.get("explanation", ""), l):
                            vs.append({"clause": "explain-differs", "signature": "mcp:explanation-text-figure-differs", "detail": msg})
                        if fr(m["allowable_cost"]) != l["cost"] or fr(m["gain_or_loss"]) != l["gain"] or fr(m["quantity"]) != l["qty"]:
                            vs.append({"clause": "explain-differs", "signature": "mcp:explain-figure-not-shown-in-full",
                                       "detail": f"{d['ticker']} {d['date']} {l['rule']}: {m['allowable_cost']} vs {l['cost']}"})
            for x in vs:
                x["case"] = {"op": "calc", "txs": txs}
                viols.append(x)
    return {"evaluations": sum(len(r) for _, _, r in items), "nontrivial_hashes": hashes, "counters": cnt,
            "violations": cap_viols(viols), "samples": []}


def exec_cli_front_end(txs, year, embedded):
    """The real binary against the library's own formatters for the same ledger: `report --format plain|json` must print
    exactly the library's text / JSON (same code, so byte equality up to the final newline), with or without a year filter,
    under the embedded exemption table or an all-years config file."""
    from ..clidrv import run_cli_report
    viols = []
    o = probe().one(dict(lc.calc_case(txs, fx="bundled", year=year, exemptions="embedded" if embedded else lc.ALL_YEARS),
                         outputs=["plain", "json"]))
    case = {"op": "cli-front-end", "txs": txs, "year": year, "embedded": embedded}
    for fmt_ in ("json", "plain"):
        r = run_cli_report(render_dsl(txs), fmt=fmt_, year=year, config_all_years=not embedded)
        if r["timeout"] or "panic" in o:
            return viols, "skipped"
        if ("ok" in o) != (r["exit"] == 0):
            viols.append({"clause": "cli-acceptance-differs-from-library", "signature": "cli:acceptance-differs-from-library",
                          "detail": f"--format {fmt_} year={year}: library {'accepted' if 'ok' in o else o.get('err', {}).get('message', '')[:100]} | "
                                    f"cli exit {r['exit']}: {r['stderr'][:140]}", "case": case})
            return viols, "judged"
        if "ok" not in o:
            return viols, "both_refused"
        if fmt_ == "json":
            want, got = json.loads(o["ok"]["json"]), json.loads(r["stdout"])
            if want != got:
                keys = [k for k in set(want) | set(got) if want.get(k) != got.get(k)]
                viols.append({"clause": "cli-json-differs-from-library", "signature": "cli:json-differs-from-library",
                              "detail": f"year={year}: keys differing: {keys}", "case": case})
        else:
            if r["stdout"].rstrip("\n") != o["ok"]["plain"].rstrip("\n"):
                a, b = r["stdout"].splitlines(), o["ok"]["plain"].splitlines()
                i = next((k for k, (x, y) in enumerate(zip(a, b)) if x != y), min(len(a), len(b)))
                viols.append({"clause": "cli-text-differs-from-library", "signature": "cli:text-differs-from-library",
                              "detail": f"year={year}: first differing line {i + 1}: cli {a[i] if i < len(a) else None!r} | "
                                        f"library {b[i] if i < len(b) else None!r}", "case": case})
    return viols, "judged"


def run_cli_front_end(desc):
    rng = rng_for(PROP, desc["seed"], "cli", desc["shard"])
    cnt, viols, hashes, samples = Counter(), [], set(), []
    for _ in range(desc["n"]):
        txs = gen_case(rng, rng.choice(["random", "random", "midpoint", "negzero"]))
        years = sorted({tax_year_of(pdate(t["date"])) for t in txs})
        year = rng.choice(years + [years[0] - 1]) if rng.random() < 0.4 else None
        embedded = rng.random() < 0.4
        vs, how = exec_cli_front_end(txs, year, embedded)
        cnt["cli_front_end_" + how] += 1
        if year is not None:
            cnt["cli_front_end_with_year_filter"] += 1
        hashes.add(sha([txs, year, embedded])[:16])
        viols += vs
    return {"evaluations": 3 * desc["n"], "nontrivial_hashes": hashes, "counters": cnt, "violations": cap_viols(viols), "samples": samples}


def run_shard(desc):
    if desc["cls"] == "mcp":
        return run_mcp(desc)
    if desc["cls"] == "cli":
        return run_cli_front_end(desc)
    rng = rng_for(PROP, desc["seed"], desc["cls"], desc["shard"])
    cnt = Counter()
    viols = []
    hashes = set()
    samples = []
    cases = [gen_case(rng, desc["cls"]) for _ in range(desc["n"])]
    reqs = [dict(lc.calc_case(t, fx="bundled", exemptions="embedded" if rng.random() < 0.3 else lc.ALL_YEARS),
                 outputs=["plain", "json", "pdf_runs"]) for t in cases]
    obs = probe().run(reqs)
    for txs, o in zip(cases, obs):
        if "ok" not in o:
            cnt["not_accepted"] += 1
            continue
        cnt["reports"] += 1
        hashes.add(sha(txs)[:16])
        vs = []
        try:
            check_all(txs, o, cnt, vs)
        except Exception as e:  # a parser of ours choking on a layout is a harness problem, not a verdict
            cnt["layout_parser_errors"] += 1
            vs = [{"clause": "layout-parser-error", "signature": "harness:layout-parser-error", "detail": f"{type(e).__name__}: {e}"}]
        for x in vs:
            x["case"] = {"op": "calc", "txs": txs}
            viols.append(x)
        if not vs and len(samples) < 1 and len(txs) <= 5:
            samples.append({"ledger": lc.brief(txs), "plain_excerpt": o["ok"]["plain"].split("\n")[4:6],
                            "pdf_runs_excerpt": (o["ok"].get("pdf_runs") or [])[18:26]})
    return {"evaluations": len(cases) * 3, "nontrivial_hashes": hashes, "counters": cnt, "violations": cap_viols(viols), "samples": samples}


def replay(case):
    if case.get("op") == "cli-front-end":
        vs, how = exec_cli_front_end(case["txs"], case.get("year"), case.get("embedded"))
        return vs, {"how": how}
    o = probe().one(dict(lc.calc_case(case["txs"], fx="bundled"), outputs=["plain", "json", "pdf_runs"]))
    vs = []
    if "ok" in o:
        check_all(case["txs"], o, Counter(), vs)
    return vs, {"plain": o.get("ok", {}).get("plain"), "pdf_runs": o.get("ok", {}).get("pdf_runs"), "json": o.get("ok", {}).get("json")}


THRESHOLDS = {"cli_front_end_judged": 60, "pdf_holdings_rows_read": 1000, "pdf_transaction_rows_read": 3000, "plain_midpoint_figures": 1000, "json_midpoint_figures": 1000, "pdf_midpoint_figures": 1000,
              "plain_negative_figures": 300, "pdf_negative_figures": 300, "pdf_figures_ge_1e6": 200,
              "plain_figures_ge_1e6": 200, "pdf_foreign_echoes": 100, "reports": 1500,
              "mcp_calculate_answers": 20, "mcp_explain_answers": 30, "mcp_figures": 300}
RULE = ("ledgers constructed so that results sit on half-pence midpoints (x.xx5 prices/fees, unit quantities), zero and "
        "negative results, amounts of 1e6-1e10 pounds, 6-9 decimal quantities and foreign-currency echoes, plus random "
        "ledgers; every figure of the plain text, the JSON report and the PDF text runs (hook H1) is parsed back and "
        "compared with the full-precision computed value (in full or pence half away from zero); the real `cgt-tool report` "
        "(plain and JSON, with and without --year, embedded table or all-years config) must print exactly what the library's "
        "formatters produce for the same ledger; distinct by ledger hash")
