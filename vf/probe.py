"""Driver for the library-boundary harness (cgt-probe)."""
from __future__ import annotations

import json
import os
import subprocess
import threading
import time

ROOT = os.path.dirname(os.path.dirname(os.path.abspath(__file__)))
# VERIF_SCRATCH_TARGET / VERIF_SCRATCH_REPO are used only by tools/seed_eval_scratch.sh, which evaluates a seeded change in a
# scratch worktree without touching /repo; no registered command sets them.
TARGET = os.environ.get("VERIF_SCRATCH_TARGET") or os.path.join(ROOT, ".target")
PROBE_BIN = os.path.join(TARGET, "release", "cgt-probe")
CLI_BIN = os.path.join(TARGET, "release", "cgt-tool")


def hooks_available() -> bool:
    """False when the last build had to leave the verif-hooks feature out (see build.py)."""
    return not os.path.exists(os.path.join(TARGET, ".hooks_off"))


class ProbeDied(Exception):
    pass


class ProbeHang(Exception):
    pass


# wall-clock watchdog per harness call; the largest legitimate calls (multi-thousand-line ledgers) take a few seconds
CASE_TIMEOUT_S = float(os.environ.get("VERIF_CASE_TIMEOUT_S", "120"))


class Probe:
    """One long-lived cgt-probe process; cases go in as JSON lines, observations come back."""

    def __init__(self):
        env = dict(os.environ)
        env["RUST_BACKTRACE"] = "0"
        self.p = subprocess.Popen(
            [PROBE_BIN], stdin=subprocess.PIPE, stdout=subprocess.PIPE,
            stderr=subprocess.DEVNULL, env=env, bufsize=0)
        self.rd = self.p.stdout
        self.buf = b""

    def _readline(self, deadline=None) -> bytes:
        import select
        while b"\n" not in self.buf:
            if deadline is not None:
                left = deadline - time.monotonic()
                if left <= 0:
                    raise ProbeHang()
                r, _, _ = select.select([self.rd.fileno()], [], [], min(left, 5.0))
                if not r:
                    continue
            chunk = os.read(self.rd.fileno(), 1 << 16)
            if not chunk:
                raise ProbeDied(f"cgt-probe exited (status {self.p.poll()})")
            self.buf += chunk
        line, self.buf = self.buf.split(b"\n", 1)
        return line

    def _start_writer(self, cases):
        data = "".join(json.dumps(c, separators=(",", ":")) + "\n" for c in cases).encode()
        proc = self.p

        def writer():
            try:
                proc.stdin.write(data)
                proc.stdin.flush()
            except (BrokenPipeError, ValueError, OSError):
                pass

        t = threading.Thread(target=writer, daemon=True)
        t.start()
        return t

    def run(self, cases: list, case_timeout: float = CASE_TIMEOUT_S) -> list:
        """Run a batch; returns observations in order. A writer thread avoids pipe deadlock. A case that produces no
        answer within `case_timeout` seconds (a generous wall-clock watchdog, reset after every answer) is recorded as
        {"hang": ...}: the harness process is killed and restarted and the rest of the batch is sent again."""
        out = []
        todo = list(cases)
        while todo:
            self._start_writer(todo)
            answered = 0
            try:
                for _ in todo:
                    out.append(json.loads(self._readline(time.monotonic() + case_timeout)))
                    answered += 1
                todo = []
            except ProbeHang:
                out.append({"hang": {"seconds": case_timeout}, "id": todo[answered].get("id")})
                todo = todo[answered + 1:]
                self._restart()
        return out

    def _restart(self):
        try:
            self.p.kill()
            self.p.wait(timeout=5)
        except Exception:
            pass
        self.__init__()

    def one(self, case: dict) -> dict:
        return self.run([case])[0]

    def close(self):
        try:
            self.p.stdin.close()
        except Exception:
            pass
        try:
            self.p.wait(timeout=5)
        except Exception:
            self.p.kill()


_probe = None


def probe() -> Probe:
    """Per-process singleton (each pool worker owns one probe)."""
    global _probe
    if _probe is None or _probe.p.poll() is not None:
        _probe = Probe()
    return _probe
