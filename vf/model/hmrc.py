"""Independent exact-arithmetic model of TCGA92 s105(1) / s106A / s104 share identification.

Written from the statute / HMRC CG51560 and docs/tax-rules.md, not from the Rust sources.
All arithmetic is in fractions.Fraction over GBP amounts.

Conventions
* A day's acquisitions of a security are one acquisition, a day's disposals one disposal (s105).
* A disposal on day d is identified with: the same day's acquisition; then acquisitions on
  d+1..d+30, earliest first, to the extent they are not needed for their own day's disposal
  and not already claimed by an earlier disposal; then the s104 pool at average cost.
* Quantities are expressed in the units current on their own date; a SPLIT r multiplies and
  an UNSPLIT r divides the unit count of everything held, and takes effect after the trades of
  its own date (the strict workload classes never put a split and a trade of one security on
  the same date, so that convention is not exercised by strict comparisons).
* CAPRETURN / ACCUMULATION / DIVIDEND do not take part in identification.
"""
from __future__ import annotations

import datetime as dt
from collections import defaultdict
from fractions import Fraction

from ..util import fr, d as pdate, tax_year_of, ZERO, ONE

SAME, BNB, S104 = "SameDay", "BedAndBreakfast", "Section104"


class NeedsFx(Exception):
    pass


def gbp_identity(amount_code, date):
    amt, code = amount_code
    if code != "GBP":
        raise NeedsFx(code)
    return fr(amt)


class Day:
    __slots__ = ("date", "A", "C", "S", "G", "Fe", "splits", "n_buys", "n_sells")

    def __init__(self, date):
        self.date = date
        self.A = ZERO   # acquired
        self.C = ZERO   # cost incl. fees
        self.S = ZERO   # sold
        self.G = ZERO   # gross proceeds
        self.Fe = ZERO  # sale fees
        self.splits = []  # multipliers applied after the day's trades
        self.n_buys = 0
        self.n_sells = 0


def build_days(txs, to_gbp=gbp_identity):
    """-> {ticker: [Day...] sorted}, dividends {tax_year: (income, tax)}, events per ticker."""
    per = defaultdict(dict)
    dividends = defaultdict(lambda: [ZERO, ZERO])
    cap_events = defaultdict(list)
    for t in txs:
        date = pdate(t["date"])
        tk = t["ticker"].upper()
        k = t["kind"]
        if k == "DIVIDEND":
            ty = tax_year_of(date)
            dividends[ty][0] += to_gbp(t["total"], date)
            dividends[ty][1] += to_gbp(t["tax"], date)
            continue
        if k in ("CAPRETURN", "ACCUMULATION"):
            total = to_gbp(t["total"], date)
            if k == "CAPRETURN":
                fees = to_gbp(t["fees"], date)
                cap_events[tk].append((date, "CAPRETURN", total - fees, fr(t["amount"])))
            else:
                to_gbp(t["tax"], date)
                cap_events[tk].append((date, "ACCUMULATION", total, fr(t["amount"])))
            continue
        day = per[tk].get(date)
        if day is None:
            day = per[tk][date] = Day(date)
        if k == "BUY":
            q = fr(t["amount"])
            day.A += q
            day.C += q * to_gbp(t["price"], date) + to_gbp(t["fees"], date)
            day.n_buys += 1
        elif k == "SELL":
            q = fr(t["amount"])
            day.S += q
            day.G += q * to_gbp(t["price"], date)
            day.Fe += to_gbp(t["fees"], date)
            day.n_sells += 1
        elif k == "SPLIT":
            day.splits.append(fr(t["ratio"]))
        elif k == "UNSPLIT":
            day.splits.append(ONE / fr(t["ratio"]))
        else:
            raise ValueError(k)
    out = {tk: [days[k] for k in sorted(days)] for tk, days in per.items()}
    return out, dividends, cap_events


def coverage(days_by_ticker):
    """First uncovered (ticker, date) per ticker, or {}.

    Covered iff on every date the acquisitions up to and including that date (rescaled by
    splits) are at least the disposals up to and including that date.
    """
    bad = {}
    for tk, days in days_by_ticker.items():
        pos = ZERO
        for day in days:
            pos += day.A - day.S
            if pos < 0:
                bad[tk] = day.date
                break
            for m in day.splits:
                pos *= m
    return bad


def identify(days_by_ticker):
    """Run identification. Requires coverage. Returns
    {ticker: {"disposals": [...], "pool": (qty, cost)}} with per-disposal legs.
    Leg costs ignore capital events (callers use cost clauses only when there are none).
    """
    out = {}
    for tk, days in days_by_ticker.items():
        n = len(days)
        claimed = [ZERO] * n
        pool_q = ZERO
        pool_c = ZERO
        disposals = []
        for i, day in enumerate(days):
            if day.S > 0:
                legs = []
                sd = min(day.S, day.A)
                if sd > 0:
                    legs.append({"rule": SAME, "qty": sd, "acq": day.date,
                                 "cost": day.C * sd / day.A})
                rem = day.S - sd
                # 30-day rule
                f = ONE  # units(day) -> units(e): multiply by f
                for m in day.splits:
                    f *= m
                j = i + 1
                while rem > 0 and j < n:
                    e = days[j]
                    gap = (e.date - day.date).days
                    if gap > 30:
                        break
                    if e.A > 0:
                        offer_e = e.A - min(e.S, e.A) - claimed[j]
                        if offer_e > 0:
                            offer_d = offer_e / f
                            take_d = min(rem, offer_d)
                            take_e = take_d * f
                            legs.append({"rule": BNB, "qty": take_d, "acq": e.date,
                                         "cost": e.C * take_e / e.A, "qty_acq_units": take_e})
                            claimed[j] += take_e
                            rem -= take_d
                    for m in e.splits:
                        f *= m
                    j += 1
                if rem > 0:
                    if pool_q < rem:
                        raise AssertionError(f"model: pool short for {tk} {day.date}")
                    cost = pool_c * rem / pool_q
                    legs.append({"rule": S104, "qty": rem, "acq": None, "cost": cost})
                    pool_q -= rem
                    pool_c -= cost
                    rem = ZERO
                net = day.G - day.Fe
                total_cost = sum((l["cost"] for l in legs), ZERO)
                disposals.append({
                    "date": day.date, "ticker": tk, "qty": day.S, "gross": day.G,
                    "fees": day.Fe, "net": net, "legs": legs, "cost": total_cost,
                    "gain": net - total_cost, "n_sells": day.n_sells,
                })
            if day.A > 0:
                join = day.A - min(day.S, day.A) - claimed[i]
                if join < 0:
                    raise AssertionError("model: over-claimed acquisition")
                if join > 0:
                    pool_q += join
                    pool_c += day.C * join / day.A
            for m in day.splits:
                pool_q *= m
        out[tk] = {"disposals": disposals, "pool": (pool_q, pool_c)}
    return out


def year_totals(all_disposals):
    """{tax_year: dict(total_gain, total_loss, net_gain, count, gross)} with per-disposal netting."""
    years = {}
    for dsp in all_disposals:
        ty = tax_year_of(dsp["date"])
        y = years.setdefault(ty, {"total_gain": ZERO, "total_loss": ZERO, "count": 0, "gross": ZERO})
        g = dsp["gain"]
        if g > 0:
            y["total_gain"] += g
        elif g < 0:
            y["total_loss"] += -g
        y["count"] += 1
        y["gross"] += dsp["gross"]
    for y in years.values():
        y["net_gain"] = y["total_gain"] - y["total_loss"]
    return years


def evaluate(txs, to_gbp=gbp_identity):
    days, dividends, cap_events = build_days(txs, to_gbp)
    bad = coverage(days)
    res = {"days": days, "dividends": dividends, "cap_events": cap_events, "uncovered": bad}
    if bad:
        return res
    ident = identify(days)
    res["ident"] = ident
    alld = [d for tk in ident for d in ident[tk]["disposals"]]
    res["years"] = year_totals(alld)
    return res
