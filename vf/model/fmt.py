"""Independent model of the presentation conventions: pence rounding half away from zero, GBP shape with
thousands separators, trimmed decimals, DD/MM/YYYY dates, YYYY/YY tax years."""
from __future__ import annotations

import re
from fractions import Fraction

from ..util import round_half_away, dstr

MONEY_RE = r"[-−]?\n?£[\d,]+\.\d{2}"
GBP_SHAPE = re.compile(r"^-?£\d{1,3}(,\d{3})*\.\d{2}$")


def fmt_gbp(x: Fraction) -> str:
    r = round_half_away(x, 2)
    neg = r < 0
    s = dstr(abs(r), min_scale=2)
    ip, fp = s.split(".")
    ip = f"{int(ip):,}"
    return ("-" if neg else "") + "£" + ip + "." + fp


def trimmed(x: Fraction) -> str:
    """Exact decimal, trailing zeros removed (input must be a terminating decimal)."""
    s = dstr(x)
    if "." in s:
        s = s.rstrip("0").rstrip(".")
    return s


def parse_money(s: str) -> Fraction:
    t = s.replace("\n", "").replace("−", "-").replace("£", "").replace(",", "").strip()
    return Fraction(t)


def fmt_date(d) -> str:
    return f"{d.day:02d}/{d.month:02d}/{d.year:04d}"


def fmt_tax_year(y: int) -> str:
    return f"{y}/{(y + 1) % 100:02d}"


def money_value_ok(shown: Fraction, value: Fraction) -> bool:
    """Shown in full or rounded to pence, midpoints away from zero.

    `value` is recomputed here in exact rationals from the report's full-precision fields; the tool's
    own Decimal sum of the same fields can differ from it by ~1e-27. When the exact value lies within
    1e-15 of a half-penny midpoint *without being on it*, either neighbouring penny is therefore
    accepted. A value exactly on a midpoint must round away from zero."""
    if shown == value or shown == round_half_away(value, 2):
        return True
    x = abs(value) * 100
    frac = x - (x.numerator // x.denominator)
    off = abs(frac - Fraction(1, 2))
    if 0 < off < Fraction(1, 10 ** 13):
        return abs(shown - value) <= Fraction(1, 200) + Fraction(1, 10 ** 15) and (shown * 100).denominator == 1
    return False


def near_midpoint(value: Fraction) -> bool:
    """Is value within 1e-9 of a half-penny midpoint?"""
    x = abs(value) * 100
    frac = x - (x.numerator // x.denominator)
    return abs(frac - Fraction(1, 2)) < Fraction(1, 10 ** 7)
