"""Own renderer of the documented transaction DSL with lexical variation, and one-token corruptions.

Independent of the tool's writer. A rendering returns (text, expected) where expected is the list
of transactions (wire format) a correct parser must produce, and line_of[i] the 1-based line of
transaction i.
"""
from __future__ import annotations

from fractions import Fraction

KEYWORDS = ["BUY", "SELL", "DIVIDEND", "ACCUMULATION", "CAPRETURN", "SPLIT", "UNSPLIT"]


def norm_dec(s: str) -> str:
    """What Decimal::from_str(s).to_string() gives for a plain digits[.digits] literal."""
    if "." in s:
        a, b = s.split(".")
        a = a.lstrip("0") or "0"
        return a + "." + b
    return s.lstrip("0") or "0"


def vcase(rng, s, style):
    if style == "upper":
        return s.upper()
    if style == "lower":
        return s.lower()
    if style == "title":
        return s.capitalize()
    return "".join(c.upper() if rng.random() < 0.5 else c.lower() for c in s)


class Style:
    """Lexical style for one rendering."""

    def __init__(self, rng, plain=False):
        self.rng = rng
        self.plain = plain
        self.kw_case = "upper" if plain else rng.choice(["upper", "lower", "title", "mixed"])
        self.cur_case = "upper" if plain else rng.choice(["upper", "lower", "mixed"])
        self.tk_case = "upper" if plain else rng.choice(["upper", "lower", "mixed"])
        self.eol = "\n" if plain else rng.choice(["\n", "\n", "\r\n", "\r"])
        self.final_newline = True if plain else rng.random() < 0.6
        self.blank_p = 0 if plain else rng.choice([0, 0.2, 0.5])
        self.comment_line_p = 0 if plain else rng.choice([0, 0.2, 0.5])
        self.trailing_comment_p = 0 if plain else rng.choice([0, 0.3, 1.0])
        self.wide_ws_p = 0 if plain else rng.choice([0, 0.3, 1.0])
        self.omit_gbp_p = 0 if plain else rng.choice([0, 0.5, 1.0])
        self.omit_zero_clause_p = 0 if plain else rng.choice([0, 0.5, 1.0])

    def sep(self):
        r = self.rng
        if r.random() < self.wide_ws_p:
            return r.choice(["  ", "\t", " \t ", "    ", "\t\t"])
        return " "

    def kw(self, s):
        return vcase(self.rng, s, self.kw_case)

    def comment(self):
        r = self.rng
        return "#" + r.choice(["", " note", " 2024-01-01 BUY X 1 @ 1", " FEES 5 GBP", "#", " üñí", " \t tab", " # nested",
                               " exported from \\\\nas01\\brokers\\new", " C:\\notes\\2024 \\n \\r\\n \\t", " \"quoted\" 'text' {json: [1]}",
                               " %s %d {0} $HOME `x`", " \\"])


def money_tokens(st: Style, m, allow_omit_gbp=True):
    amt, code = m
    toks = [amt]
    if code == "GBP" and allow_omit_gbp and st.rng.random() < st.omit_gbp_p:
        return toks
    toks.append(vcase(st.rng, code, st.cur_case))
    return toks


def tx_tokens(st: Style, t):
    """Token list of one transaction line."""
    k = t["kind"]
    toks = [t["date"], st.kw(k), vcase(st.rng, t["ticker"], st.tk_case)]

    def optional(keyword, m):
        if Fraction(m[0]) == 0 and st.rng.random() < st.omit_zero_clause_p:
            return []
        return [st.kw(keyword)] + money_tokens(st, m)
    if k in ("BUY", "SELL"):
        toks += [t["amount"], "@"] + money_tokens(st, t["price"]) + optional("FEES", t["fees"])
    elif k == "DIVIDEND":
        toks += [st.kw("TOTAL")] + money_tokens(st, t["total"]) + optional("TAX", t["tax"])
    elif k == "ACCUMULATION":
        toks += [t["amount"], st.kw("TOTAL")] + money_tokens(st, t["total"]) + optional("TAX", t["tax"])
    elif k == "CAPRETURN":
        toks += [t["amount"], st.kw("TOTAL")] + money_tokens(st, t["total"]) + optional("FEES", t["fees"])
    else:
        toks += [st.kw("RATIO"), t["ratio"]]
    return toks


def expected_of(t):
    """The transaction a correct parser produces for tx t (decimal literals normalised)."""
    e = {"date": t["date"], "ticker": t["ticker"].upper(), "kind": t["kind"]}
    for f in ("amount", "ratio"):
        if f in t:
            e[f] = norm_dec(t[f])
    for f in ("price", "fees", "total", "tax"):
        if f in t:
            e[f] = [norm_dec(t[f][0]), t[f][1].upper()]
    return e


def render(rng, txs, plain=False, style=None):
    """-> (text, expected, line_of, token_lines, placements) ; token_lines[i] = tokens of tx i."""
    st = style or Style(rng, plain)
    lines = []
    line_of = []
    token_lines = []
    placements = set()
    for t in txs:
        while rng.random() < st.blank_p:
            lines.append(rng.choice(["", "", "  ", "\t"]))
            placements.add("blank_line")
        while rng.random() < st.comment_line_p:
            lines.append(st.comment())
            placements.add("comment_line")
        toks = tx_tokens(st, t)
        s = toks[0]
        for tok in toks[1:]:
            s += st.sep() + tok
        if rng.random() < st.trailing_comment_p:
            last = toks[-1]
            kind = "number" if last[0].isdigit() else "word"
            placements.add(f"trailing_comment_after_{kind}:{t['kind']}")
            s += rng.choice([" ", "  ", "\t", ""]) + st.comment()
        elif rng.random() < st.wide_ws_p:
            s += rng.choice([" ", "\t"])
            placements.add("trailing_whitespace")
        token_lines.append(toks)
        lines.append(s)
        line_of.append(len(lines))
    if rng.random() < st.comment_line_p:
        lines.append(st.comment())
    text = st.eol.join(lines)
    if st.final_newline:
        text += st.eol
    else:
        placements.add("no_final_newline")
    placements.add({"\n": "LF", "\r\n": "CRLF", "\r": "CR"}[st.eol])
    placements.add("kw_" + st.kw_case)
    placements.add("cur_" + st.cur_case)
    placements.add("tk_" + st.tk_case)
    return text, [expected_of(t) for t in txs], line_of, token_lines, placements


# ---- corruptions (invalid under any reading of the documented format) ---------------------------

def corrupt(rng, txs, invalid_codes):
    """Render plainly (LF, one space), corrupt one token of one line. -> (text, line, description) or None."""
    st = Style(rng, plain=True)
    st.omit_gbp_p = rng.choice([0, 1.0])
    st.omit_zero_clause_p = rng.choice([0, 1.0])
    rows = [tx_tokens(st, t) for t in txs]
    i = rng.randrange(len(rows))
    toks = list(rows[i])
    k = txs[i]["kind"]
    num_pos = [j for j, x in enumerate(toks) if j >= 3 and x[0].isdigit()]
    kw_pos = [j for j, x in enumerate(toks) if x.upper() in ("TOTAL", "FEES", "TAX", "RATIO")]
    cur_pos = [j for j, x in enumerate(toks) if j >= 4 and len(x) == 3 and x.isalpha() and x.upper() not in ("FEES", "TAX")]
    choices = ["keyword_garbage", "date_calendar", "date_shape", "number_garbage", "number_signed", "number_dots",
               "delete_required", "stray_extra", "duplicate_clause"]
    if cur_pos:
        choices.append("currency_garbage")
    c = rng.choice(choices)
    desc = c
    if c == "keyword_garbage":
        toks[1] = rng.choice(["FOO", "%%", "BUUY", "PURCHASE", "B"])
    elif c == "date_calendar":
        toks[0] = rng.choice(["2024-13-01", "2023-02-29", "2024-00-10", "2024-04-31", "2024-01-32", "2024-02-30"])
    elif c == "date_shape":
        toks[0] = rng.choice(["20240101", "24-01-01", "2024/01/01", "2024-1-1", "01-01-2024", "%%"])
    elif c == "number_garbage":
        if not num_pos:
            return None
        toks[rng.choice(num_pos)] = rng.choice(["%%", "abc", "1O0", "1,000", "£5", "1e5", "."])
    elif c == "number_signed":
        if not num_pos:
            return None
        j = rng.choice(num_pos)
        toks[j] = rng.choice(["-", "+"]) + toks[j]
    elif c == "number_dots":
        if not num_pos:
            return None
        j = rng.choice(num_pos)
        toks[j] = rng.choice([toks[j] + ".5.5", "1.2.3", toks[j] + ".", "." + toks[j].replace(".", "")])
    elif c == "currency_garbage":
        toks[rng.choice(cur_pos)] = rng.choice(invalid_codes)
    elif c == "delete_required":
        # tokens that are required in every reading: date, keyword, ticker, the first number, '@'/TOTAL/RATIO, its number
        req = [0, 1, 2]
        if k in ("BUY", "SELL"):
            req += [3, 4, 5]
        elif k == "DIVIDEND":
            req += [3, 4]
        elif k in ("ACCUMULATION", "CAPRETURN"):
            req += [3, 4, 5]
        else:
            req += [3, 4]
        j = rng.choice(req)
        if j == 1 and any(toks[2].upper().startswith(kw) for kw in KEYWORDS):
            return None   # "BUY BUYX" minus the keyword reads as BUY + ticker X: a grammar leniency, not a corruption
        # deleting the ticker of BUY/SELL/ACC/CAP makes the quantity the ticker (alphanumeric) -> still invalid later
        desc += f":{j}"
        del toks[j]
    elif c == "stray_extra":
        toks.append(rng.choice(["EXTRA", "5", "%%", "@", "GBP GBP", "2024-01-01"]))
        if toks[-1] == "GBP GBP" and toks[-2].isalpha():
            toks[-1] = "GBP"
    elif c == "duplicate_clause":
        if k in ("BUY", "SELL", "CAPRETURN"):
            toks += ["FEES", "1", "GBP", "FEES", "2", "GBP"] if "FEES" not in [x.upper() for x in toks] else ["FEES", "2", "GBP"]
        elif k in ("DIVIDEND", "ACCUMULATION"):
            toks += ["TAX", "1", "GBP", "TAX", "2", "GBP"] if "TAX" not in [x.upper() for x in toks] else ["TAX", "2", "GBP"]
        else:
            toks += ["RATIO", "3"]
    rows[i] = toks
    pre = []
    # sprinkle comment/blank lines so the line number is not the transaction index
    lines = []
    target = None
    for j, r in enumerate(rows):
        if rng.random() < 0.3:
            lines.append(rng.choice(["", "# c"]))
        lines.append(" ".join(r))
        if j == i:
            target = len(lines)
    return "\n".join(lines) + "\n", target, desc
