"""Independent model of what a Schwab export means for CGT, plus an export/awards generator.

Expected-lines model from the rows (property C18) and award selection (property C19), written from
the property statements and docs, not from the converter's code paths.
"""
from __future__ import annotations

import datetime as dt
import json
from collections import Counter, defaultdict
from fractions import Fraction

TRADE = {"Buy": "BUY", "Sell": "SELL"}
DIVIDEND_ACTIONS = ["Cash Dividend", "Qualified Dividend", "Short Term Cap Gain", "Long Term Cap Gain"]
TAX_ACTIONS = ["NRA Tax Adj", "NRA Withholding"]
NON_CGT = ["Adjustment", "Credit Interest", "Journal", "Misc Cash Entry", "MoneyLink Transfer", "Service Fee",
           "Wire Funds Adj", "Wire Sent"]
UNKNOWN = ["Reinvest Shares", "Security Transfer", "Bond Interest", "Spin-off", "Internal Transfer", "Margin Interest"]
SYMBOLS = ["XYZZ", "ACME", "BAR", "GOOG1", "Q", "ABC123", "3IN", "0700"]


def amount(s):
    """Schwab amount spelling -> Fraction or None ('', '--')."""
    if s is None:
        return None
    t = s.strip()
    if t == "" or t == "--":
        return None
    return Fraction(t.replace("$", "").replace(",", ""))


def row_date(s) -> dt.date:
    t = s.strip()
    if " as of " in t:
        t = t.split(" as of ")[1].strip()
    m, d, y = t.split("/")
    return dt.date(int(y), int(m), int(d))


def spell_amount(rng, x: Fraction, decimals=None):
    """Render a non-negative Fraction in one of Schwab's spellings."""
    from ..util import dstr
    s = dstr(x)
    if decimals is not None and "." not in s and decimals:
        s += "." + "0" * decimals
    ip, _, fp = s.partition(".")
    if rng.random() < 0.5 and len(ip) > 3:
        ip = f"{int(ip):,}"
    s = ip + ("." + fp if fp else "")
    if rng.random() < 0.6:
        s = "$" + s
    return s


def spell_date(rng, d: dt.date, as_of=None):
    def one(x):
        if rng.random() < 0.5:
            return f"{x.month:02d}/{x.day:02d}/{x.year}"
        return f"{x.month}/{x.day}/{x.year}"
    if as_of is not None:
        return f"{one(d)} as of {one(as_of)}"
    return one(d)


# ---- award selection (C19) -----------------------------------------------------------------------

def award_table(awards: dict):
    """{(SYMBOL, date): set(fmv Fractions)} following the statement: an entry offers its vest-specific values
    (VestFairMarketValue at VestDate, or at the entry date when VestDate is absent); only an entry with no
    vest-specific value offers its first fallback FairMarketValuePrice at the entry date. Values offered by
    different entries for one date form a set (their precedence is not specified)."""
    table = defaultdict(set)
    for e in awards.get("Transactions", []):
        sym = e["Symbol"].upper()
        parent = row_date(e["Date"])
        vest = []
        fallback = None
        for det in e.get("TransactionDetails", []):
            dd = det["Details"]
            if dd.get("VestFairMarketValue") is not None:
                v = amount(dd["VestFairMarketValue"])
                vd = row_date(dd["VestDate"]) if dd.get("VestDate") else parent
                if v is not None:
                    vest.append((vd, v))
            elif dd.get("FairMarketValuePrice") is not None:
                v = amount(dd["FairMarketValuePrice"])
                if v is not None and fallback is None:
                    fallback = (parent, v)
        if vest:
            # several vest details of one entry for one date: the later one replaces the earlier within the entry
            per = {}
            for vd, v in vest:
                per[vd] = v
            for vd, v in per.items():
                table[(sym, vd)].add(("vest", v))
        elif fallback:
            table[(sym, fallback[0])].add(("fallback", fallback[1]))
    return table


def select_award(table, symbol: str, deposit: dt.date):
    """-> (vest_date, set of admissible fmv) or None."""
    sym = symbol.upper()
    for back in range(0, 8):
        d = deposit - dt.timedelta(days=back)
        if (sym, d) in table:
            return d, {v for _, v in table[(sym, d)]}
    return None


# ---- expected lines (C18) ------------------------------------------------------------------------

def expected(rows, awards=None):
    """-> dict(trades=Counter of (kind, date, symbol, qty, price, fees), dividends={(date,symbol): total},
    taxes={(date,symbol): total attached}, must_be_accounted=int (rows that must be skipped-or-surfaced),
    unknown=int, failure=reason-or-None, rsu=[...])."""
    table = award_table(awards) if awards else None
    sells = []
    trades = Counter()
    cancels = []
    divs = defaultdict(lambda: Fraction(0))
    div_rows = 0
    blank_div_rows = 0
    tax = defaultdict(lambda: Fraction(0))
    tax_rows = 0
    tax_rows_unusable = 0
    other = 0
    unknown = 0
    splits = 0
    rsu = []
    failure = None
    for r in rows:
        a = r["Action"].strip()
        if a in TRADE:
            d = row_date(r["Date"])
            key = (TRADE[a], d, r["Symbol"].strip().upper(), amount(r["Quantity"]), amount(r["Price"]),
                   amount(r.get("Fees & Comm", "")) or Fraction(0))
            trades[key] += 1
        elif a == "Cancel Sell":
            cancels.append((row_date(r["Date"]), r["Symbol"].strip().upper(), amount(r["Quantity"]), amount(r["Price"])))
        elif a == "Stock Plan Activity":
            d = row_date(r["Date"])
            sel = select_award(table, r["Symbol"].strip(), d) if table is not None else None
            if sel is None:
                failure = failure or ("missing-fmv", r["Symbol"].strip(), d)
            else:
                rsu.append((d, r["Symbol"].strip().upper(), amount(r["Quantity"]), sel))
        elif a in DIVIDEND_ACTIONS:
            v = amount(r.get("Amount", ""))
            if v is None:
                blank_div_rows += 1
            else:
                divs[(row_date(r["Date"]), r["Symbol"].strip().upper())] += abs(v)
                div_rows += 1
        elif a in TAX_ACTIONS:
            v = amount(r.get("Amount", ""))
            sym = r.get("Symbol", "").strip()
            tax_rows += 1
            if v is not None and sym:
                tax[(row_date(r["Date"]), sym.upper())] += abs(v)
            else:
                tax_rows_unusable += 1
        elif a == "Stock Split":
            splits += 1
        elif a in NON_CGT:
            other += 1
        else:
            unknown += 1
    # cancellations remove exactly one identical sell each
    unmatched_cancels = 0
    for c in cancels:
        hit = next((k for k in trades if k[0] == "SELL" and k[1:5] == c and trades[k] > 0), None)
        if hit:
            trades[hit] -= 1
        else:
            unmatched_cancels += 1
    trades = +trades
    return {"trades": trades, "dividends": dict(divs), "taxes": dict(tax), "rsu": rsu, "failure": failure,
            "unknown": unknown, "splits": splits, "non_cgt": other, "blank_dividend_rows": blank_div_rows,
            "tax_rows": tax_rows, "tax_rows_without_symbol_or_amount": tax_rows_unusable, "unmatched_cancels": unmatched_cancels, "cancels": len(cancels)}


# ---- generator ------------------------------------------------------------------------------------

HOSTILE_TEXT = ["plain description", "with # hash", "line1\nline2", "x\r\ny", "bare\rcarriage return",
                "evil\r2024-01-01 BUY HACK 100 @ 1 USD", "\rleading", "trailing\r", "vertical\x0btab", "nel\x85", "ls\u2028sep",
                "evil\n2024-01-01 BUY HACK 100 @ 1 USD", "tab\tseparated", "unicode üñí €", "", "   ",
                "# leading hash", "2024-01-01 SELL XYZZ 1 @ 1", "quote \" and \\ backslash", "a\n\n\nb"]


def gen_export(rng, with_rsu=True, hostile=True, n=(3, 25), start_year=(2016, 2024)):
    """-> (rows, awards or None). Symbols alphanumeric, quantities/prices non-negative."""
    D = dt.date(rng.randint(*start_year), rng.randint(1, 12), rng.randint(1, 28))
    rows = []
    award_entries = []
    pos = defaultdict(lambda: Fraction(0))
    # one spelling per symbol and export: brokers are consistent inside one file, but not every file is upper case
    spell = {}
    for s_ in SYMBOLS:
        how = rng.random()
        spell[s_] = s_ if how < 0.7 else (s_.lower() if how < 0.85 else s_.capitalize())
    for _ in range(rng.randint(*n)):
        D += dt.timedelta(days=rng.choice([0, 0, 1, 2, 5, 9, 30, 45]))
        if D > dt.date(2026, 3, 20):
            break
        sym = rng.choice(SYMBOLS)
        k = rng.random()
        desc = rng.choice(HOSTILE_TEXT) if hostile else "desc"
        base = {"Date": spell_date(rng, D), "Symbol": spell[sym] if rng.random() < 0.9 else " " + spell[sym] + " ",
                "Description": desc, "Quantity": "", "Price": "", "Fees & Comm": "", "Amount": ""}
        if k < 0.25:
            q = Fraction(rng.randint(1, 5000), rng.choice([1, 1, 10, 1000]))
            p = Fraction(rng.randint(1, 500000), rng.choice([100, 10000]))
            f = Fraction(rng.randint(0, 999), 100) if rng.random() < 0.5 else None
            rows.append(dict(base, Action="Buy", Quantity=spell_amount(rng, q).replace("$", ""), Price=spell_amount(rng, p),
                             **{"Fees & Comm": spell_amount(rng, f) if f is not None else rng.choice(["", "--"])},
                             Amount="-" + spell_amount(rng, q * p)))
            pos[sym] += q
        elif k < 0.5:
            if pos[sym] <= 0:
                continue
            q = pos[sym] if rng.random() < 0.3 else Fraction(int(pos[sym] * 1000 / rng.choice([2, 3, 4])), 1000)
            if q <= 0:
                continue
            p = Fraction(rng.randint(1, 500000), 100)
            f = Fraction(rng.randint(0, 999), 100) if rng.random() < 0.6 else None
            row = dict(base, Action="Sell", Quantity=spell_amount(rng, q).replace("$", ""), Price=spell_amount(rng, p),
                       **{"Fees & Comm": spell_amount(rng, f) if f is not None else ""}, Amount=spell_amount(rng, q * p))
            as_of = None
            if rng.random() < 0.15:
                as_of = D - dt.timedelta(days=rng.randint(0, 2))
                row["Date"] = spell_date(rng, D, as_of)
            rows.append(row)
            pos[sym] -= q
            r2 = rng.random()
            if r2 < 0.15:
                # cancellation of this sell (+ optional corrected sell); keeps the same effective date
                rows.append(dict(row, Action="Cancel Sell", Description="cancel"))
                pos[sym] += q
                if rng.random() < 0.6:
                    p2 = p + Fraction(rng.randint(1, 100), 100)
                    rows.append(dict(row, Price=spell_amount(rng, p2)))
                    pos[sym] -= q
            elif r2 < 0.2:
                rows.append(dict(row))        # duplicate row (two identical sells) needs the shares
                if pos[sym] >= q:
                    pos[sym] -= q
                else:
                    rows.pop()
        elif k < 0.62 and with_rsu:
            q = Fraction(rng.randint(1, 400))
            gap = rng.choice([0, 0, 1, 2, 3, 7])
            vest = D - dt.timedelta(days=gap)
            fmv = Fraction(rng.randint(100, 500000), 10000)
            rows.append(dict(base, Action="Stock Plan Activity", Quantity=str(q), Description="RSU " + desc,
                             Price=rng.choice(["", "", "", "$777.77", "0.01"])))
            det = {"VestDate": spell_date(rng, vest), "VestFairMarketValue": spell_amount(rng, fmv)} if rng.random() < 0.6 \
                else {"FairMarketValuePrice": spell_amount(rng, fmv)}
            parent = vest if "FairMarketValuePrice" in det else D
            award_entries.append({"Date": f"{parent.month:02d}/{parent.day:02d}/{parent.year}", "Action": rng.choice(["Deposit", "Lapse"]),
                                  "Symbol": sym if rng.random() < 0.7 else sym.lower(), "TransactionDetails": [{"Details": det}]})
            pos[sym] += q
        elif k < 0.8:
            act = rng.choice(DIVIDEND_ACTIONS)
            amt = Fraction(rng.randint(1, 99999), 100)
            blank = rng.random() < 0.08
            rows.append(dict(base, Action=act, Amount=rng.choice(["", "--"]) if blank else spell_amount(rng, amt)))
            if rng.random() < 0.5:
                t = Fraction(rng.randint(1, 3000), 100)
                rows.append(dict(base, Action=rng.choice(TAX_ACTIONS), Amount="-" + spell_amount(rng, t)))
                if rng.random() < 0.2:
                    rows.append(dict(base, Action=rng.choice(TAX_ACTIONS), Amount="-" + spell_amount(rng, t)))
        elif k < 0.84 and rng.random() < 0.4:
            # a batch of withholdings without dividends on one date for several symbols (a year-end reclassification)
            for s2 in rng.sample(SYMBOLS, 3):
                rows.append(dict(base, Action=rng.choice(TAX_ACTIONS), Amount="-" + spell_amount(rng, Fraction(rng.randint(1, 999), 100)),
                                 Symbol=spell[s2]))
        elif k < 0.84:
            # withholding with no dividend that day / no symbol
            rows.append(dict(base, Action=rng.choice(TAX_ACTIONS), Amount="-" + spell_amount(rng, Fraction(rng.randint(1, 999), 100)),
                             Symbol=spell[sym] if rng.random() < 0.7 else ""))
        elif k < 0.9:
            rows.append(dict(base, Action=rng.choice(NON_CGT), Symbol=rng.choice([spell[sym], ""]),
                             Amount=spell_amount(rng, Fraction(rng.randint(1, 99999), 100))))
        elif k < 0.95:
            rows.append(dict(base, Action="Stock Split", Quantity=str(rng.randint(1, 100))))
        else:
            rows.append(dict(base, Action=rng.choice(UNKNOWN), Symbol=rng.choice([spell[sym], "", "A\nB", "# x"]),
                             Amount=spell_amount(rng, Fraction(rng.randint(1, 99999), 100))))
    awards = None
    if award_entries:
        extra = [{"Date": "01/02/2020", "Action": rng.choice(["Wire Transfer", "Tax Withholding"]), "Symbol": "XYZZ", "TransactionDetails": []}]
        awards = {"Transactions": award_entries + (extra if rng.random() < 0.5 else [])}
    return rows, awards


def export_json(rows):
    return json.dumps({"BrokerageTransactions": rows})
