"""Independent model of the HMRC monthly rate table: bundled XML files, then folder files over it.

Parses /repo/crates/cgt-money/resources/rates/*.xml itself (xml.etree), so expectations do not
come from the tool's own parser. Where the data itself lists a currency more than once in a
month with different rates (e.g. XCD in 2015-04) the expectation is set-valued.
"""
from __future__ import annotations

import datetime as dt
import glob
import os
import re
import xml.etree.ElementTree as ET
from fractions import Fraction
from functools import lru_cache

RATES_DIR = (os.environ.get("VERIF_SCRATCH_REPO") or "/repo") + "/crates/cgt-money/resources/rates"
MONTHS = {m: i + 1 for i, m in enumerate(
    ["Jan", "Feb", "Mar", "Apr", "May", "Jun", "Jul", "Aug", "Sep", "Oct", "Nov", "Dec"])}


class BadRateFile(Exception):
    pass


def parse_xml(text: str):
    """-> ((year, month), [(code, Fraction rate)...]) or raises BadRateFile."""
    try:
        root = ET.fromstring(text)
    except ET.ParseError as e:
        raise BadRateFile(f"xml: {e}")
    period = root.attrib.get("Period")
    if not period:
        raise BadRateFile("no Period")
    m = re.match(r"\s*(\d{2})/([A-Za-z]{3})/(\d{4})", period)
    if not m or m.group(2).title() not in MONTHS:
        raise BadRateFile(f"bad Period {period}")
    ym = (int(m.group(3)), MONTHS[m.group(2).title()])
    rates = []
    for er in root.findall("exchangeRate"):
        code = (er.findtext("currencyCode") or "").strip().upper()
        rate = (er.findtext("rateNew") or "").strip()
        rates.append((code, rate))
    return ym, rates


def name_period(name: str):
    stem = os.path.splitext(os.path.basename(name))[0]
    stem = stem.rsplit("_", 1)[-1]
    parts = stem.split("-")
    try:
        y, m = int(parts[0]), int(parts[1])
    except (ValueError, IndexError):
        raise BadRateFile(f"bad file name {name}")
    if not 1 <= m <= 12:
        raise BadRateFile(f"bad month in {name}")
    return y, m


@lru_cache(maxsize=1)
def bundled():
    """{(code, year, month): set(Fraction)}; set-valued where the file repeats a code."""
    table = {}
    for path in sorted(glob.glob(os.path.join(RATES_DIR, "*.xml"))):
        with open(path, encoding="utf-8") as f:
            ym, rates = parse_xml(f.read())
        if ym != name_period(path):
            raise BadRateFile(f"bundled period mismatch {path}")
        for code, rate in rates:
            table.setdefault((code, ym[0], ym[1]), []).append(Fraction(rate))
    return {k: v for k, v in table.items()}


def bundled_months():
    return sorted({(y, m) for (_, y, m) in bundled()})


class Table:
    """Bundled table with optional folder overrides applied on top (last file for a month wins,
    files ordered by mtime as the loader documents; generators never give two files for one month
    conflicting rates unless the case is labelled)."""

    def __init__(self, known_codes: set | None = None, folder=None):
        self.known = known_codes
        self.over = {}
        self.folder_error = None
        if folder:
            for f in sorted(folder, key=lambda f: f.get("mtime") or 0):
                try:
                    ym = name_period(f["name"])
                    fym, rates = parse_xml(f["xml"])
                    if fym != ym:
                        raise BadRateFile(f"period {fym} != name {ym}")
                    for code, rate in rates:
                        if self.known is not None and code not in self.known:
                            continue
                        try:
                            r = Fraction(rate)
                        except (ValueError, ZeroDivisionError):
                            raise BadRateFile(f"bad rate {rate}")
                        if r <= 0:
                            raise BadRateFile(f"non-positive rate {rate} for {code}")
                        self.over[(code, ym[0], ym[1])] = [r]
                except BadRateFile as e:
                    self.folder_error = str(e)
                    break

    def rates(self, code, year, month):
        """List of admissible rates (usually one) or None when absent."""
        k = (code, year, month)
        if k in self.over:
            return self.over[k]
        if self.known is not None and code not in self.known:
            return None
        v = bundled().get(k)
        if not v:
            return None
        # the tool's cache keeps the last occurrence; accept any listed value when they differ
        return v if len(set(v)) > 1 else [v[0]]


class MissingRate(Exception):
    def __init__(self, code, year, month):
        super().__init__(f"{code} {year}-{month:02d}")
        self.code, self.year, self.month = code, year, month


def converter(table: Table, pick_last=True):
    """-> to_gbp(amount_code, date) for model.hmrc; raises MissingRate. Uses the last listed
    rate where the data is ambiguous (callers that care compare against both)."""
    def to_gbp(amount_code, date: dt.date):
        amt, code = amount_code
        a = Fraction(amt)
        if code == "GBP":
            return a
        rs = table.rates(code, date.year, date.month)
        if not rs:
            raise MissingRate(code, date.year, date.month)
        return a / (rs[-1] if pick_last else rs[0])
    return to_gbp
