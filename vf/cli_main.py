from __future__ import annotations

import importlib
import json
import os
import sys
import time

from . import build, known
from .probe import ROOT
from .runner import run_sharded
from .util import sha

BUDGET = {"quick": 600.0, "thorough": 3600.0}


def jsonable(x):
    from fractions import Fraction
    import datetime as dt
    if isinstance(x, dict):
        return {str(k): jsonable(v) for k, v in x.items()}
    if isinstance(x, (list, tuple)):
        return [jsonable(v) for v in x]
    if isinstance(x, (set, frozenset)):
        return sorted((jsonable(v) for v in x), key=str)
    if isinstance(x, Fraction):
        return str(x)
    if isinstance(x, (dt.date, dt.datetime)):
        return x.isoformat()
    return x


def minimise(mod, case, signature, max_calls=600):
    """Greedy: drop transactions while a violation with the same signature remains."""
    if "txs" not in case or not hasattr(mod, "replay") or "variant" in case or "suffix" in case:
        return case      # two-ledger cases are not minimised by dropping lines of one side
    txs = list(case["txs"])
    calls = 0

    def still(t):
        nonlocal calls
        calls += 1
        try:
            vs, _ = mod.replay(dict(case, txs=t))
        except Exception:
            return False
        return any(v.get("signature") == signature for v in vs)

    changed = True
    while changed and calls < max_calls:
        changed = False
        i = len(txs) - 1
        while i >= 0 and calls < max_calls:
            cand = txs[:i] + txs[i + 1:]
            if cand and still(cand):
                txs = cand
                changed = True
            i -= 1
    return dict(case, txs=txs)


OUT = os.environ.get("VERIF_OUT_DIR", ROOT)   # scratch location for seeded-change evaluations


def write_replay(prop, viol, tier=None, seed=None):
    d = os.path.join(OUT, "replays", prop)
    os.makedirs(d, exist_ok=True)
    body = jsonable({"property": prop, "signature": viol.get("signature"), "clause": viol.get("clause"),
                     "detail": viol.get("detail"), "case": viol.get("case"),
                     "readable": viol.get("readable"),
                     "found_by": {"tier": tier, "seed": seed, "command": f"VERIF_SEED={seed} ./check {prop} {tier}"}})
    path = os.path.join(d, sha(body)[:16] + ".json")
    with open(path, "w") as f:
        json.dump(body, f, indent=1)
    return path


def run_check(prop, tier, seed):
    t0 = time.time()
    mod = importlib.import_module(f"vf.monitors.{prop.lower()}")
    if os.environ.get("VERIF_NO_BUILD") != "1":
        if not build.build():
            print(f"INCONCLUSIVE property={prop} reason=build-failed")
            return 2
    budget = float(os.environ.get("VERIF_BUDGET_S", BUDGET[tier]))
    shards = mod.plan(tier, seed)
    known_sigs = {k["signature"] for k in known.load() if k["property"] == prop and k.get("status") == "open"}
    total = run_sharded(mod.__name__, shards, budget, known_signatures=known_sigs)
    if hasattr(mod, "finalize"):
        mod.finalize(total, tier, seed)

    # --- verdicts -------------------------------------------------------
    by_sig = {}
    for v in total["violations"]:
        by_sig.setdefault(v.get("signature", v.get("clause", "?")), []).append(v)
    known_seen = []
    new_viol = []
    # every open finding listed for this property is announced on every run; those this run did not happen to re-observe
    # (rare shapes, mostly seen at the thorough tier) say so
    for k in known.load():
        if k["property"] == prop and k.get("status") == "open" and k["signature"] not in by_sig:
            print(f"KNOWN-FINDING: property={prop} {k['key']}: {k['what']} (listed; not re-observed in this run)")
    for sig, vs in sorted(by_sig.items()):
        k = known.match_open(prop, sig)
        if k:
            n = len(vs) + total.get("known_counts", {}).get(sig, 0)
            known_seen.append({"key": k["key"], "signature": sig, "count": n, "what": k["what"]})
            print(f"KNOWN-FINDING: property={prop} {k['key']}: {k['what']} (re-observed {n}x this run)")
            continue
        v = min(vs, key=lambda x: len(json.dumps(jsonable(x.get("case")))))
        try:
            v["case"] = minimise(mod, v["case"], sig)
            if hasattr(mod, "replay"):
                rv, _ = mod.replay(v["case"])
                same = [x for x in rv if x.get("signature") == sig]
                if same:
                    v["detail"] = same[0].get("detail", v.get("detail"))
        except Exception as e:  # minimisation is best effort
            v["minimise_error"] = str(e)
        if "txs" in v.get("case", {}):
            from .monitors.ledger_core import brief
            v["readable"] = brief(v["case"]["txs"])
        path = write_replay(prop, v, tier, seed)
        new_viol.append({"signature": sig, "count": len(vs), "replay": path, "clause": v.get("clause"),
                         "detail": v.get("detail")})
        print(f"VIOLATION property={prop} replay={path}")
        print(f"  signature={sig} occurrences={len(vs)}")
        print(f"  {str(v.get('detail'))[:600]}")
        for line in (v.get("readable") or [])[:40]:
            print(f"    {line}")

    inconclusive = list(total.get("inconclusive", []))
    for e in total["harness_errors"][:5]:
        inconclusive.append("harness error: " + e[:800])
    cnt = total["counters"]
    for name, need in getattr(mod, "THRESHOLDS", {}).items():
        got = cnt.get(name, 0)
        if got < need.get(tier, 0) if isinstance(need, dict) else got < need:
            inconclusive.append(f"coverage threshold not met: {name}={got} < {need}")
    if total["evaluations"] == 0:
        inconclusive.append("no executions observed")

    distinct = len(total["nontrivial_hashes"])
    coverage = {
        "evaluations": total["evaluations"],
        "distinct_nontrivial": distinct,
        "rule": getattr(mod, "RULE", ""),
        "samples": jsonable(total["samples"][:5]) or [{"note": "no sample recorded"}],
        "counters": {k: cnt[k] for k in sorted(cnt)},
        "observed_sets": {k: jsonable(sorted(v, key=str))[:200] for k, v in total["sets"].items()},
        "shards_planned": total.get("shards_planned"),
        "shards_done": total.get("shards_done"),
        "budget_exhausted": bool(total.get("budget_exhausted")),
        "known_findings_seen": known_seen,
        "violations_found": new_viol,
        "inconclusive_reasons": inconclusive,
        "exhaustive": False,
    }
    coverage.update(jsonable(total.get("extra_coverage", {})))
    ev = {
        "property_id": prop, "tier": tier, "seed": seed,
        "level": getattr(mod, "LEVEL", "exploration"),
        "coverage": coverage,
        "assumptions": getattr(mod, "ASSUMPTIONS", []),
        "wall_s": round(time.time() - t0, 2),
        "violations": len(new_viol),
    }
    os.makedirs(os.path.join(OUT, "evidence"), exist_ok=True)
    with open(os.path.join(OUT, "evidence", f"{prop}.json"), "w") as f:
        json.dump(ev, f, indent=1)
    summary = {k: cnt[k] for k in sorted(cnt) if not k.startswith("feat_")}
    print(f"[{prop} {tier} seed={seed}] evaluations={total['evaluations']} distinct_nontrivial={distinct} "
          f"shards={total.get('shards_done')}/{total.get('shards_planned')} wall={ev['wall_s']}s")
    print(f"  observed: {json.dumps(summary)[:1500]}")
    if new_viol:
        return 1
    if inconclusive:
        for r in inconclusive:
            print(f"INCONCLUSIVE property={prop} reason={r[:500]}")
        return 2
    print(f"HELD property={prop} on everything observed")
    return 0


def run_replay(prop, path):
    mod = importlib.import_module(f"vf.monitors.{prop.lower()}")
    if os.environ.get("VERIF_NO_BUILD") != "1" and not build.build():
        return 2
    with open(path) as f:
        body = json.load(f)
    vs, obs = mod.replay(body["case"])
    print(json.dumps(jsonable({"observation": obs}), indent=1)[:6000])
    if vs:
        for v in vs:
            k = known.match_open(prop, v.get("signature", ""))
            tag = "KNOWN-FINDING:" if k else "VIOLATION"
            print(f"{tag} property={prop} replay={path}")
            print(f"  signature={v.get('signature')} {str(v.get('detail'))[:800]}")
        return 1 if any(not known.match_open(prop, v.get("signature", "")) for v in vs) else 0
    if isinstance(obs, dict) and "note" in obs:
        fb = body.get("found_by") or {}
        print(f"replay: cases of this kind (a process / session history) are re-observed by re-running the workload that "
              f"produced them: {fb.get('command', './check ' + prop + ' quick')}  [{obs['note']}]")
        return 2
    print(f"replay: no violation of {prop} on the current tree")
    return 0


def main(argv):
    if not argv:
        print(__doc__ or "usage: check <ID> quick|thorough | --setup")
        return 2
    if argv[0] == "--setup":
        return 0 if build.build(verbose=True) else 2
    prop = argv[0].upper()
    seed = int(os.environ.get("VERIF_SEED", "0"))
    if len(argv) >= 3 and argv[1] == "--replay":
        return run_replay(prop, argv[2])
    tier = argv[1] if len(argv) > 1 else os.environ.get("VERIF_TIER", "quick")
    if tier not in ("quick", "thorough"):
        print("tier must be quick or thorough")
        return 2
    return run_check(prop, tier, seed)
