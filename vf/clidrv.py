"""Process-boundary driver: runs the real cgt-tool binary (built without hooks) in a scratch cwd."""
from __future__ import annotations

import hashlib
import os
import shutil
import subprocess
import tempfile

from .probe import CLI_BIN

ALL_YEARS_TOML = "[exemptions]\n" + "".join(f'"{y}" = 3000\n' for y in range(1900, 2101))


class Sandbox:
    """Scratch cwd + HOME for one or more CLI invocations."""

    def __init__(self, config_toml: str | None = None, home_config_toml: str | None = None):
        base = "/dev/shm" if os.path.isdir("/dev/shm") and os.access("/dev/shm", os.W_OK) else None
        self.dir = tempfile.mkdtemp(prefix="vf-cli-", dir=base)
        self.cwd = os.path.join(self.dir, "cwd")
        self.home = os.path.join(self.dir, "home")
        os.makedirs(self.cwd)
        os.makedirs(self.home)
        if config_toml is not None:
            with open(os.path.join(self.cwd, "config.toml"), "w") as f:
                f.write(config_toml)
        if home_config_toml is not None:
            d = os.path.join(self.home, ".config", "cgt-tool")
            os.makedirs(d)
            with open(os.path.join(d, "config.toml"), "w") as f:
                f.write(home_config_toml)

    def write(self, name, data):
        p = os.path.join(self.cwd, name)
        os.makedirs(os.path.dirname(p), exist_ok=True)
        mode = "wb" if isinstance(data, bytes) else "w"
        with open(p, mode, newline="" if mode == "w" else None) as f:
            f.write(data)
        return p

    def listing(self):
        out = {}
        for root, _, files in os.walk(self.cwd):
            for fn in files:
                p = os.path.join(root, fn)
                st = os.stat(p)
                with open(p, "rb") as f:
                    h = hashlib.sha256(f.read()).hexdigest()
                out[os.path.relpath(p, self.cwd)] = (st.st_size, st.st_mtime_ns, h)
        return out

    def run(self, args, stdin=None, timeout=120, stdout_path=None, env_extra=None):
        env = {"PATH": os.environ.get("PATH", "/usr/bin:/bin"), "HOME": self.home,
               "RUST_BACKTRACE": "0", "LANG": "C.UTF-8"}
        if env_extra:
            env.update(env_extra)
        so = subprocess.PIPE
        fh = None
        if stdout_path:
            fh = open(stdout_path, "wb")
            so = fh
        try:
            r = subprocess.run([CLI_BIN] + list(args), cwd=self.cwd, env=env, input=stdin,
                               stdout=so, stderr=subprocess.PIPE, timeout=timeout)
            return {"exit": r.returncode, "stdout": r.stdout if r.stdout is not None else b"",
                    "stderr": r.stderr.decode("utf-8", "replace"), "timeout": False}
        except subprocess.TimeoutExpired:
            return {"exit": None, "stdout": b"", "stderr": "", "timeout": True}
        finally:
            if fh:
                fh.close()

    def close(self):
        shutil.rmtree(self.dir, ignore_errors=True)

    def __enter__(self):
        return self

    def __exit__(self, *a):
        self.close()


def run_cli_report(dsl_text, fmt="plain", use_output=False, config_all_years=True, year=None,
                   files=None, fx_folder=None, keep_output_bytes=False, extra_args=()):
    """One `cgt-tool report` run on one DSL text (or several (name, text) files)."""
    with Sandbox(ALL_YEARS_TOML if config_all_years else None) as sb:
        names = []
        if files is None:
            files = [("in.cgt", dsl_text)]
        for name, text in files:
            sb.write(name, text)
            names.append(name)
        args = ["report"] + names + ["--format", fmt]
        if year is not None:
            args += ["--year", str(year)]
        out_name = None
        if use_output:
            out_name = "out." + {"plain": "txt", "json": "json", "pdf": "pdf"}[fmt]
            args += ["--output", out_name]
        if fx_folder is not None:
            for name, xml in fx_folder:
                sb.write(os.path.join("fx", name), xml)
            os.makedirs(os.path.join(sb.cwd, "fx"), exist_ok=True)
            args += ["--fx-folder", "fx"]
        args += list(extra_args)
        before = sb.listing()
        r = sb.run(args)
        after = sb.listing()
        r["stdout_bytes"] = r["stdout"]
        r["stdout"] = r["stdout"].decode("utf-8", "replace")
        r["new_files"] = sorted(k for k in after if k not in before and k != out_name)
        r["changed_files"] = sorted(k for k in after if k in before and after[k] != before[k])
        r["output_exists"] = bool(out_name and out_name in after)
        if out_name and out_name in after:
            with open(os.path.join(sb.cwd, out_name), "rb") as f:
                data = f.read()
            r["output_sha"] = hashlib.sha256(data).hexdigest()
            if keep_output_bytes or fmt != "pdf":
                r["output_bytes"] = data
        return r
