"""Sharded execution of a property's workload over worker processes, with budgets.

A monitor module provides
    plan(tier, seed) -> list of shard descriptors (JSON-able, small)
    run_shard(desc)  -> ShardResult dict (see merge())
The runner executes shards on a process pool until the list is exhausted or the wall-clock
budget is used up (remaining shards are then *skipped*, never counted), and merges results.
"""
from __future__ import annotations

import importlib
import multiprocessing as mp
import os
import time
import traceback
from collections import Counter


def _worker(args):
    modname, desc = args
    try:
        mod = importlib.import_module(modname)
        return mod.run_shard(desc)
    except Exception as e:  # harness error -> inconclusive, never a violation
        return {"harness_error": f"{type(e).__name__}: {e}\n{traceback.format_exc()[-1500:]}",
                "desc": desc}


def new_result() -> dict:
    return {
        "evaluations": 0,
        "nontrivial_hashes": set(),
        "counters": Counter(),
        "violations": [],      # dicts: {signature, clause, detail, case}
        "samples": [],
        "harness_errors": [],
        "sets": {},            # name -> set (merged by union), for "distinct X seen" evidence
    }


def merge(total: dict, part: dict):
    if "harness_error" in part:
        total["harness_errors"].append(part["harness_error"])
        return
    total["evaluations"] += part.get("evaluations", 0)
    total["nontrivial_hashes"].update(part.get("nontrivial_hashes", ()))
    pc = dict(part.get("counters", {}))
    for k in [k for k in pc if k.startswith("max_")]:     # maxima are merged as maxima, everything else is summed
        total["counters"][k] = max(total["counters"].get(k, 0), pc.pop(k))
    total["counters"].update(pc)
    total["violations"].extend(part.get("violations", ()))
    for s in part.get("samples", ()):
        if len(total["samples"]) < 5:
            total["samples"].append(s)
    total["harness_errors"].extend(part.get("harness_errors", ()))
    for k, v in part.get("sets", {}).items():
        total["sets"].setdefault(k, set()).update(v)


def run_sharded(modname: str, shards: list, budget_s: float, workers: int | None = None,
                max_violations: int = 200, known_signatures=()) -> dict:
    workers = workers or min(16, os.cpu_count() or 4)
    total = new_result()
    t0 = time.time()
    total["shards_planned"] = len(shards)
    total["known_counts"] = {}
    done = 0
    if not shards:
        return total
    ctx = mp.get_context("fork")
    with ctx.Pool(processes=min(workers, len(shards))) as pool:
        it = pool.imap_unordered(_worker, [(modname, s) for s in shards])
        while True:
            remaining = budget_s - (time.time() - t0)
            if remaining <= 0:
                total["budget_exhausted"] = True
                break
            try:
                part = it.next(timeout=max(1.0, remaining))
            except StopIteration:
                break
            except mp.TimeoutError:
                total["budget_exhausted"] = True
                break
            merge(total, part)
            done += 1
            # keep at most 50 re-observations per known signature; they never stop the run early
            seen = {}
            kept = []
            for v in total["violations"]:
                sg = v.get("signature")
                if sg in known_signatures:
                    seen[sg] = seen.get(sg, 0) + 1
                    total["known_counts"][sg] = total["known_counts"].get(sg, 0) + 1
                    if seen[sg] > 50:
                        continue
                kept.append(v)
            total["violations"] = kept
            for sg in seen:
                total["known_counts"][sg] -= min(seen[sg], 50)
            unknown = sum(1 for v in kept if v.get("signature") not in known_signatures)
            if unknown >= max_violations:
                total["stopped_on_violations"] = True
                break
        pool.terminate()
    total["shards_done"] = done
    total["wall_s"] = time.time() - t0
    return total
