"""Offline incremental builds of the harness (hooks on) and the CLI (hooks off) from /repo."""
from __future__ import annotations

import fcntl
import os
import shutil
import subprocess
import sys
import time

from .probe import ROOT, TARGET

REPO = os.environ.get("VERIF_SCRATCH_REPO") or "/repo"


def _run(cmd, cwd):
    env = dict(os.environ)
    env["CARGO_NET_OFFLINE"] = "true"
    env.setdefault("CARGO_TERM_COLOR", "never")
    env.pop("RUSTFLAGS", None)
    r = subprocess.run(cmd, cwd=cwd, env=env, stdout=subprocess.PIPE, stderr=subprocess.STDOUT, text=True)
    return r.returncode, r.stdout


def build(verbose=False) -> bool:
    """Rebuild both binaries from /repo's current working tree. Returns True on success."""
    os.makedirs(TARGET, exist_ok=True)
    lock_path = os.path.join(TARGET, ".verif-build.lock")
    with open(lock_path, "w") as lf:
        fcntl.flock(lf, fcntl.LOCK_EX)
        t0 = time.time()
        hdir = os.path.join(ROOT, "harness")
        if REPO != "/repo":   # scratch evaluation: a copy of the harness whose path dependencies point at the scratch tree
            hdir = os.path.join(TARGET, "harness-src")
            shutil.rmtree(hdir, ignore_errors=True)
            shutil.copytree(os.path.join(ROOT, "harness"), hdir, ignore=shutil.ignore_patterns("target", "Cargo.lock"))
            ct = os.path.join(hdir, "Cargo.toml")
            with open(ct) as f:
                txt = f.read().replace('"/repo/', '"' + REPO.rstrip("/") + "/")
            with open(ct, "w") as f:
                f.write(txt)
        hl = os.path.join(hdir, "Cargo.lock")
        rl = os.path.join(REPO, "Cargo.lock")
        if not os.path.exists(hl) or os.path.getmtime(hl) < os.path.getmtime(rl):
            shutil.copyfile(rl, hl)
        marker = os.path.join(TARGET, ".hooks_off")
        if os.environ.get("VERIF_FORCE_NO_HOOKS") == "1":     # testing aid for the fallback below; no registered command sets it
            rc, out = 1, "forced"
        else:
            rc, out = _run(["cargo", "build", "--release", "--offline", "--target-dir", TARGET], hdir)
        if rc == 0:
            if os.path.exists(marker):
                os.remove(marker)
        else:
            # The tree may have changed something the dormant hooks read (they reach into matcher internals). Build the
            # harness without them: every monitor that needs no hook keeps deciding, hook-dependent clauses are skipped.
            rc2, out2 = _run(["cargo", "build", "--release", "--offline", "--no-default-features", "--target-dir", TARGET], hdir)
            if rc2 != 0:
                sys.stderr.write(out[-4000:])
                sys.stderr.write("\nHARNESS BUILD FAILED (inconclusive, not a violation)\n")
                return False
            with open(marker, "w") as f:
                f.write(out[-2000:])
            sys.stderr.write("NOTICE: /repo does not compile with feature verif-hooks; harness built WITHOUT hooks - "
                             "hook-dependent clauses (H1 PDF text runs, H2 snapshots, H3 drain orders) are skipped\n")
        rc, out = _run(["cargo", "build", "--release", "--offline", "-p", "cgt-cli",
                        "--manifest-path", os.path.join(REPO, "Cargo.toml"), "--target-dir", TARGET], REPO)
        if rc != 0:
            sys.stderr.write(out[-4000:])
            sys.stderr.write("\nCLI BUILD FAILED (inconclusive, not a violation)\n")
            return False
        if verbose:
            print(f"build ok in {time.time() - t0:.1f}s")
    return True
