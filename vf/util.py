"""Shared helpers: exact decimals as strings <-> Fractions, seeded RNG, hashing, dates."""
from __future__ import annotations

import datetime as dt
import hashlib
import json
import random
from fractions import Fraction

F = Fraction
ZERO = Fraction(0)
ONE = Fraction(1)


def fr(s) -> Fraction:
    """Decimal string (as the tool prints it) -> exact Fraction."""
    if isinstance(s, Fraction):
        return s
    if isinstance(s, int):
        return Fraction(s)
    return Fraction(str(s))


def dstr(x: Fraction, min_scale: int = 0) -> str:
    """Exact decimal string of a Fraction whose denominator divides a power of ten."""
    x = Fraction(x)
    neg = x < 0
    if neg:
        x = -x
    n, d = x.numerator, x.denominator
    scale = 0
    dd = d
    while dd % 10 == 0:
        dd //= 10
        scale += 1
    # remaining factors 2 and 5
    t = dd
    twos = fives = 0
    while t % 2 == 0:
        t //= 2
        twos += 1
    while t % 5 == 0:
        t //= 5
        fives += 1
    if t != 1:
        raise ValueError(f"not a terminating decimal: {x}")
    extra = max(twos, fives)
    scale += extra
    scale = max(scale, min_scale)
    m = n * (10 ** scale) // d
    assert Fraction(m, 10 ** scale) == x
    s = str(m)
    if scale:
        s = s.rjust(scale + 1, "0")
        s = s[:-scale] + "." + s[-scale:]
    return ("-" if neg else "") + s


def is_terminating(x: Fraction) -> bool:
    d = Fraction(x).denominator
    while d % 2 == 0:
        d //= 2
    while d % 5 == 0:
        d //= 5
    return d == 1


def rng_for(*parts) -> random.Random:
    return random.Random(":".join(str(p) for p in parts))


def sha(obj) -> str:
    return hashlib.sha256(json.dumps(obj, sort_keys=True, default=str).encode()).hexdigest()


def d(s: str) -> dt.date:
    return dt.date.fromisoformat(s)


def iso(x: dt.date) -> str:
    return f"{x.year:04d}-{x.month:02d}-{x.day:02d}"


def tax_year_of(x: dt.date) -> int:
    """UK tax year start year: 6 April Y .. 5 April Y+1 -> Y."""
    return x.year if (x.month, x.day) >= (4, 6) else x.year - 1


def round_half_away(x: Fraction, places: int = 2) -> Fraction:
    q = Fraction(10) ** places
    y = abs(x) * q
    n = y.numerator // y.denominator
    rem = y - n
    if rem >= Fraction(1, 2):
        n += 1
    r = Fraction(n) / q
    return -r if x < 0 else r


def approx_eq(a: Fraction, b: Fraction, abs_tol: Fraction, rel_terms: Fraction = ZERO) -> bool:
    return abs(a - b) <= abs_tol + Fraction(1, 10 ** 18) * abs(rel_terms)


TOL_10DP = Fraction(1, 10 ** 9)        # figures that pass through round_dp(10)
TOL_FINE = Fraction(1, 10 ** 15)       # everything else (plus 1e-18 * |terms|)
DUST = Fraction(1, 10 ** 15)           # leg quantities below this are division residue


def cap_viols(viols, per_sig=6, total=240):
    """What a shard hands back: at most `per_sig` violations per distinct signature (never 'the first N of
    everything': a frequent known-finding signature must not crowd out a rare unknown one)."""
    seen = {}
    out = []
    for v in viols:
        s = v.get("signature") or v.get("clause") or "?"
        n = seen.get(s, 0)
        if n < per_sig:
            seen[s] = n + 1
            out.append(v)
            if len(out) >= total:
                break
    return out
