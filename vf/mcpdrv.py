"""Protocol-boundary driver for `cgt-tool mcp` (JSON-RPC over stdio, newline-delimited).

Records a history at the client side from one monotonic clock: every request (with a unique id) gets
t_send; every output line gets t_recv. Requests that were never answered stay *open* until the end
of the history (they are never logged as failed).
"""
from __future__ import annotations

import json
import os
import subprocess
import threading
import time

from .clidrv import Sandbox, ALL_YEARS_TOML
from .probe import CLI_BIN

INIT = {"jsonrpc": "2.0", "id": "init-0", "method": "initialize",
        "params": {"protocolVersion": "2024-11-05", "capabilities": {}, "clientInfo": {"name": "vf", "version": "0"}}}
INITIALIZED = {"jsonrpc": "2.0", "method": "notifications/initialized"}


class Session:
    def __init__(self, config_toml=ALL_YEARS_TOML):
        self.sb = Sandbox(config_toml)
        env = {"PATH": os.environ.get("PATH", "/usr/bin:/bin"), "HOME": self.sb.home, "RUST_BACKTRACE": "0"}
        self.p = subprocess.Popen([CLI_BIN, "mcp"], cwd=self.sb.cwd, env=env, stdin=subprocess.PIPE,
                                  stdout=subprocess.PIPE, stderr=subprocess.PIPE, bufsize=0)
        self.sent = {}          # id(json-dumped) -> {"req":..., "t_send":...}
        self.lines = []         # {"raw":..., "t_recv":...}
        self.stderr = b""
        self.eof = threading.Event()
        self.lock = threading.Lock()
        self.t_out = threading.Thread(target=self._read_out, daemon=True)
        self.t_err = threading.Thread(target=self._read_err, daemon=True)
        self.t_out.start()
        self.t_err.start()
        self.exit_before_close = None
        self.send([INIT])
        self.wait_for(["init-0"], 30)
        self._write(json.dumps(INITIALIZED) + "\n")

    def _read_out(self):
        buf = b""
        fd = self.p.stdout.fileno()
        while True:
            chunk = os.read(fd, 1 << 16)
            if not chunk:
                break
            buf += chunk
            while b"\n" in buf:
                line, buf = buf.split(b"\n", 1)
                with self.lock:
                    self.lines.append({"raw": line, "t_recv": time.monotonic()})
        if buf:
            with self.lock:
                self.lines.append({"raw": buf, "t_recv": time.monotonic(), "torn": True})
        self.eof.set()

    def _read_err(self):
        fd = self.p.stderr.fileno()
        while True:
            chunk = os.read(fd, 1 << 16)
            if not chunk:
                break
            if len(self.stderr) < 1 << 16:
                self.stderr += chunk

    def _write(self, text):
        try:
            self.p.stdin.write(text.encode())
            self.p.stdin.flush()
            return True
        except (BrokenPipeError, OSError):
            return False

    @staticmethod
    def idkey(i):
        return json.dumps(i)

    def send(self, requests, raw_lines=None):
        """One write() for the whole burst."""
        t = time.monotonic()
        text = ""
        for r in requests:
            if "id" in r:
                self.sent[self.idkey(r["id"])] = {"req": r, "t_send": t}
            text += json.dumps(r, separators=(",", ":")) + "\n"
        for raw in raw_lines or ():
            text += raw + "\n"
        return self._write(text)

    def answered(self):
        with self.lock:
            out = set()
            for ln in self.lines:
                try:
                    j = json.loads(ln["raw"])
                    if isinstance(j, dict) and "id" in j and ("result" in j or "error" in j):
                        out.add(self.idkey(j["id"]))
                except Exception:
                    pass
            return out

    def wait_for(self, ids, timeout):
        want = {self.idkey(i) for i in ids}
        t0 = time.monotonic()
        while time.monotonic() - t0 < timeout:
            if want <= self.answered():
                return True
            if self.eof.is_set():
                return want <= self.answered()
            time.sleep(0.002)
        return False

    def alive(self):
        return self.p.poll() is None

    def finish(self, timeout=30):
        """Close stdin; the server must exit with status 0."""
        self.exit_before_close = self.p.poll()
        try:
            self.p.stdin.close()
        except Exception:
            pass
        try:
            code = self.p.wait(timeout=timeout)
            hung = False
        except subprocess.TimeoutExpired:
            self.p.kill()
            code = None
            hung = True
        self.eof.wait(5)
        self.sb.close()
        return {"exit": code, "hung_after_close": hung, "exit_before_close": self.exit_before_close}


def call(id_, tool, arguments):
    return {"jsonrpc": "2.0", "id": id_, "method": "tools/call", "params": {"name": tool, "arguments": arguments}}


def check_history(sess: Session, end: dict, expect_unanswered=()):
    """Offline checker: every request id exactly one response, no unknown ids, no torn/non-JSON lines,
    server alive until stdin closed and exit 0 afterwards. Returns (violations, stats, responses{idkey: json})."""
    v = []
    resp = {}
    counts = {}
    order = []
    for ln in sess.lines:
        if ln.get("torn"):
            v.append(("torn-output-line", repr(ln["raw"][:120])))
            continue
        try:
            j = json.loads(ln["raw"])
        except Exception:
            v.append(("non-json-output-line", repr(ln["raw"][:120])))
            continue
        if not isinstance(j, dict) or j.get("jsonrpc") != "2.0":
            v.append(("not-a-jsonrpc-message", repr(ln["raw"][:120])))
            continue
        if "id" in j and ("result" in j or "error" in j):
            k = Session.idkey(j["id"])
            counts[k] = counts.get(k, 0) + 1
            resp[k] = j
            order.append((k, ln["t_recv"]))
            if ("result" in j) == ("error" in j):
                v.append(("response-with-both-or-neither-result-and-error", k))
        # server-initiated notifications/requests are allowed
    for k, n in counts.items():
        if k not in sess.sent:
            v.append(("response-with-unknown-id", k))
        elif n > 1:
            v.append(("request-answered-more-than-once", f"{k} x{n}"))
    open_ids = [k for k in sess.sent if k not in counts]
    for k in open_ids:
        if k not in {Session.idkey(i) for i in expect_unanswered}:
            req = sess.sent[k]["req"]
            name = req.get("params", {}).get("name") if req.get("method") == "tools/call" else req.get("method")
            v.append(("request-never-answered", f"{k} ({name})"))
    if end["exit_before_close"] is not None:
        v.append(("server-exited-before-stdin-closed", f"status {end['exit_before_close']}"))
    if end["hung_after_close"]:
        v.append(("server-did-not-exit-after-stdin-closed", ""))
    elif end["exit"] != 0 and end["exit_before_close"] is None:
        v.append(("server-exit-status-nonzero", str(end["exit"])))
    # schedule evidence: completions overtaking (response order != send order within the history)
    send_order = {k: i for i, k in enumerate(sess.sent)}
    inversions = 0
    last = -1
    for k, _t in order:
        if k in send_order:
            if send_order[k] < last:
                inversions += 1
            last = max(last, send_order[k])
    stats = {"requests": len(sess.sent), "responses": len(order), "out_of_order_completions": inversions}
    return v, stats, resp
