#!/usr/bin/env python3
"""Write /tmp/wt/prompts/<PROP>.md for round 5 from tools/seed_prompt_r5.md: property text + the ideas already used
(every row of DESIGN.md section 11 that names a change of that property)."""
import json, re, sys, os
props = {json.loads(l)["id"]: json.loads(l) for l in open("/verif/properties.jsonl")}
rows = [l for l in open("/verif/DESIGN.md") if re.match(r"^\| C\d\d-", l)]
tmpl = open("/verif/tools/seed_prompt_r5.md").read()
os.makedirs("/tmp/wt/prompts", exist_ok=True)
for pid in sys.argv[1:]:
    ex = []
    for r in rows:
        cells = [c.strip() for c in r.strip().strip("|").split("|")]
        if re.search(rf"\b{pid}-", cells[0]):
            ex.append("- " + cells[1])
    p = props[pid]
    text = tmpl.replace("{wt}", f"/tmp/wt/{pid}").replace("{prop}", json.dumps({k: p[k] for k in ("id", "title", "statement", "quantifier", "anchors")}, indent=1)).replace("{excl}", "\n  ".join(ex))
    open(f"/tmp/wt/prompts/{pid}.md", "w").write(text)
    print(pid, len(ex), "exclusions", len(text), "chars")
