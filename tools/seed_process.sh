#!/bin/bash
# Confirm a sub-agent's seeded change, evaluate it with the given checks, and file it under /verif/seeded/.
# usage: tools/seed_process.sh <PROP> <mN> "<checks to run>"
prop=$1; m=$2; checks=$3
wt=/tmp/wt/$prop
dest=/verif/seeded/$prop-${SEED_PREFIX:-}$m
mkdir -p $dest
conf=$(/verif/tools/seed_confirm.sh $wt $m 2>&1)
echo "$conf" | grep -v "^WARNING" | tr '\n' ' '; echo
ev=$(/verif/tools/${SEED_EVAL:-seed_eval.sh} $wt/mutations/$m/patch.diff $checks 2>&1 | grep -v "^WARNING")
echo "$ev"
cp $wt/mutations/$m/patch.diff $dest/patch.diff
rm -rf $dest/demo; mkdir -p $dest/demo
( cd $wt/mutations/$m && find . -maxdepth 3 -type f ! -name patch.diff -size -300k ! -path './target/*' ! -path './out/*' | while read f; do mkdir -p "$dest/demo/$(dirname "$f")"; cp "$f" "$dest/demo/$f"; done )
[ -f $dest/demo/demo.sh ] || echo "WARNING: no demo.sh copied for $prop-$m"
python3 - "$prop" "$m" "$dest" "$conf" "$ev" "$checks" <<'PY'
import json, sys, re
prop, m, dest, conf, ev, checks = sys.argv[1:7]
caught = re.search(r"CAUGHT_BY:(.*)", ev)
meta = {
  "property": prop, "mutation": m,
  "needs_to_manifest": "see demo/README.md (written by the sub-agent that produced the change)",
  "confirmed_by_me": {"commands": "tools/seed_confirm.sh (demo on clean tree, demo with patch, whole suite with patch)",
                      "output": " ".join(l for l in conf.splitlines() if not l.startswith("WARNING"))},
  "checks_run": checks.split(),
  "caught_by": caught.group(1).split() if caught else [],
  "check_output": [l for l in ev.splitlines() if re.match(r"^C\d\d ", l)],
}
json.dump(meta, open(dest + "/meta.json", "w"), indent=1)
print("filed", dest, "caught_by", meta["caught_by"])
PY
