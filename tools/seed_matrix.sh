#!/bin/bash
# Re-evaluate every filed seeded change with the current machinery in the scratch worktree (never touches /repo):
# the check of the property it was written against plus every check recorded as having caught it.
# Writes seeded/<id>/final_eval.txt and prints one line per change.  usage: tools/seed_matrix.sh [ids...]
cd "$(dirname "$0")/.."
ids=${@:-$(ls seeded)}
for id in $ids; do
  d=seeded/$id
  checks=$(python3 - "$d" <<'PY'
import json,sys
m=json.load(open(sys.argv[1]+'/meta.json'))
print(" ".join(sorted(set([m['property']]+list(m.get('caught_by',[]))))))
PY
)
  out=$(tools/seed_eval_scratch.sh $d/patch.diff $checks 2>&1 | grep -v "^WARNING\|^KNOWN")
  echo "$out" > $d/final_eval.txt
  echo "$id: $(echo "$out" | grep CAUGHT_BY) (ran: $checks)"
done
