#!/usr/bin/env python3
"""Regenerate MANIFEST.json from the per-property table below (keeps it valid at all times)."""
import json
import os
import subprocess

ROOT = os.path.dirname(os.path.dirname(os.path.abspath(__file__)))

BASELINE_OFF = ("cd /repo && cargo nextest run --workspace --no-fail-fast --offline --test-threads 8 "
                "|| cargo test --workspace --no-fail-fast --offline")

CHECKS = {
    "C01": dict(
        technique="runtime monitor: differential oracle (exact-rational s105/s106A/s104 model) over full-precision "
                  "reports observed at the library boundary",
        text="Every generated ledger is run through the real calculate() (release build of /repo's working tree) and "
             "each reported leg (rule, quantity, acquisition date; cost/proceeds/gain when no capital events) is compared "
             "with an independent Fraction model of TCGA92 s105(1)/s106A/s104. Quick: ~37k shape-directed ledgers incl. "
             "the complete window-edge suite (every sale date 2019-04-06..2025-04-05 x offsets 0,1,29,30,31) and the same suite over a seed-chosen block of four tax years in 1900..2100; thorough: every sale date 1900-04-06..2100-04-05. "
             "Held = held on the executions observed; coverage counters (legs per rule, competing claims, reservations, "
             "splits in window, offsets) are in the evidence and a run that saw too few of them is inconclusive. One ledger in four (chosen by its hash) enters the library as DSL text in a random lexical style (keyword/currency/ticker case, spacing, comments, line endings) instead of as structs, so the parser-to-engine hand-over is inside the monitored path.",
        note="Trusts the Python model's reading of the statute (validated against the repaired tree and by seeded "
             "mutations), rust_decimal residue below 1e-15 (1e-9 on figures passing round_dp(10)), and that the release "
             "harness build reflects /repo's working tree.",
        ref="DESIGN.md §3 C01, §2.2"),
    "C02": dict(
        technique="runtime monitor: conservation equations over observed legs/holdings + invariants asserted on H2 "
                  "matcher-state snapshots at every processed day",
        text="For every accepted generated ledger the monitor checks, from the input lines and the full-precision "
             "report alone: legs of a disposal sum to the day's SELL quantity; same-day + 30-day legs carrying "
             "acquisition date D (converted to D's units across splits) never exceed that day's BUYs; closing holding = "
             "acquisitions - disposals rescaled by splits. At the H2 hook it asserts at every day end that no lot has "
             "consumed+reserved+in_pool > original or a negative counter, and that the pool equals lots moved in minus "
             "s104 legs so far. Independent of the identification model, so it stays meaningful where C01 would be in doubt. One ledger in four (chosen by its hash) enters the library as DSL text in a random lexical style (keyword/currency/ticker case, spacing, comments, line endings) instead of as structs, so the parser-to-engine hand-over is inside the monitored path.",
        note="Strict workload classes only (no split on a trade date of the same security: that convention is not fixed "
             "by any property). Tolerance 1e-15 + 1e-18*scale for decimal residue. "
             "Later addition: a labelled class with SPLIT/UNSPLIT on trade dates judged only by the tool's own views agreeing with each other (matcher net position vs Section 104 pool vs reported holding; hook H2); F15 divergences there are known-finding signatures.",
        ref="DESIGN.md §3 C02"),
    "C03": dict(
        technique="runtime monitor: per-security cost conservation over observed legs/holdings, with the adjustments "
                  "that took effect read from the H2 pre-pass snapshot",
        text="Per security of every accepted ledger: sum(leg allowable costs) + closing pool cost must equal "
             "sum(q*p+fees in GBP) + the cost offsets the pre-pass actually attached (H2), and those offsets must equal "
             "the net amounts of exactly the capital events dated while shares were held (never a fraction of an event). "
             "Includes a foreign-currency class converted by an independent reading of the bundled HMRC XML. One ledger in four (chosen by its hash) enters the library as DSL text in a random lexical style (keyword/currency/ticker case, spacing, comments, line endings) instead of as structs, so the parser-to-engine hand-over is inside the monitored path. Capital-event lines quote quantities above, at and below the holding (the quoted quantity is informational) and are sometimes listed twice, identical lines being separate events.",
        note="An event dated when the model holding is exactly zero after a non-terminating split ratio is left open "
             "here (decimal residue decides; reported by C11). Strict classes only. "
             "A labelled split-on-trade-date class judges an event by the reading of 'held' that the report's own closing holding shows. Without hooks (tree does not compile with verif-hooks) conservation is checked against the model's event amounts instead.",
        ref="DESIGN.md §3 C03"),
    "C05": dict(
        technique="runtime monitor: accept/reject of the real calculate() and of the real CLI process compared with an "
                  "independent coverage predicate; exit status/stdout/file-system observation on failing runs",
        text="Covered ledgers and five classes of uncovered mutants (truncated history, duplicated sale rows, sale a "
             "tick above the holding, companion sale matched to a later repurchase, oversell appearing after a "
             "split/unsplit) are run through calculate(); the verdict must equal the model predicate 'acquired to date "
             ">= sold to date on every date', the error must name the security and its first uncovered date, and the "
             "real cgt-tool (plain/json/pdf, with and without --output) must exit non-zero with empty stdout and no file. One ledger in four (chosen by its hash) enters the library as DSL text in a random lexical style (keyword/currency/ticker case, spacing, comments, line endings) instead of as structs, so the parser-to-engine hand-over is inside the monitored path.",
        note="Known open finding F3b (decimal residue after a non-terminating split ratio refuses a covered sale of the "
             "whole holding) is matched on its exact signature only. MCP leg of the no-partial-output clause is "
             "observed by C20's history checker.",
        ref="DESIGN.md §3 C05, §4 F2/F3"),
    "C04": dict(
        technique="runtime monitor: arithmetic identities evaluated on every produced report (library boundary, "
                  "full precision) against the input ledger and a generated exemption configuration; CLI runs with "
                  "generated override files",
        text="Every identity of the statement (gross = sum q*p, net = gross - fees, quantity = sum legs, sum leg gains = "
             "net - costs, per-disposal netting into total gain/loss, disposal count, dividend totals by tax year, "
             "exemption = configured amount, unconfigured year = error, taxable = max(0, net - exemption)) is recomputed "
             "in exact rationals from the input lines and compared with the report for ~12k ledgers x generated "
             "exemption maps x optional year filter, plus real cgt-tool runs with ./config.toml and ~/.config overrides. One ledger in four (chosen by its hash) enters the library as DSL text in a random lexical style (keyword/currency/ticker case, spacing, comments, line endings) instead of as structs, so the parser-to-engine hand-over is inside the monitored path.",
        note="Two override files never disagree on a year (their precedence is not part of the property). FX class uses "
             "the independent rate-table model.",
        ref="DESIGN.md §3 C04"),
    "C06": dict(
        technique="runtime monitor: metamorphic tool-vs-tool comparison (permuted lines, fill-split trades) at the "
                  "library boundary and file-partitioned inputs through the real CLI",
        text="Each base ledger is re-run under 6 line permutations and 2 fill-splittings (same total quantity, "
             "consideration and fees; adjacent or separated fills) and the reports compared leg by leg; the real CLI "
             "is run on 1-5 files (LF/CRLF, with/without final newline, contiguous or arbitrarily distributed) against "
             "the concatenation. Accept/reject must agree. "
             "The CLI leg duplicates a BUY line in 40% of its ledgers so that textually identical lines land in different files.",
        note="Open finding F16 (per-sell-line legs when same-day SELL lines are not consecutive; pinned by "
             "tests/plain/SyntheticComplex.txt) is matched by its exact signature: merged legs, costs, totals and "
             "holdings must still agree. Split-and-trade-on-one-date ledgers are not generated (convention not fixed "
             "by any property; see DESIGN.md F15).",
        ref="DESIGN.md §3 C06, §4 F4/F16"),
    "C07": dict(
        technique="runtime monitor with exhaustive sub-spaces: TaxPeriod::from_date observed on every date "
                  "1900-04-06..2101-04-05; year-filtered reports compared bit-exactly with the all-years report",
        text="All 73,414 dates (plus 800 rejected neighbours) are pushed through the real from_date; for every Y in "
             "1900..2100 a ledger selling on 5/6 April and a random day is checked in all-years mode and under filters "
             "Y-1, Y, Y+1; random multi-year ledgers are checked under every in-range filter (incl. years without "
             "disposals): a year report must equal that year's slice (Decimal ==) and holdings the full history. "
             "Every SELL day must be listed in exactly one tax year of the all-years report; ledgers reaching outside the embedded exemption table are also run under that table (if a report is produced no sale may be missing; year-restricted reports are compared with the fully configured all-years report).",
        note="MCP explain_matching's own year derivation is exercised by C20's history checker on boundary-day disposals.",
        ref="DESIGN.md §3 C07"),
    "C09": dict(
        technique="runtime monitor: metamorphic projection (whole ledger vs each security alone) compared exactly; "
                  "mixed-case tickers through the DSL and JSON input paths",
        text="Ledgers over 2-6 securities colliding on dates are compared with the reports of each security's "
             "transactions alone: disposals, legs and holdings bit-identical, year totals additive, acceptance = "
             "conjunction. Mixed-case ticker spellings through parse_file and the JSON deserialiser must give the same report. "
             "The JSON case-variant leg also uses tickers with cased letters outside ASCII.",
        note="F16 regrouping (another security's line between two same-day SELL lines) is matched as the known finding; "
             "merged legs must still agree.",
        ref="DESIGN.md §3 C09"),
    "C10": dict(
        technique="runtime monitor: metamorphic twins (ledger rewritten in post-split units; cancelling SPLIT/UNSPLIT pair)",
        text="Ledgers with splits/unsplits anywhere relative to sales, 30-day windows and capital events are compared "
             "with their twin in post-split units (exact class: ratios with terminating reciprocals, 1e-9; rounded "
             "class: any ratio, twin rounded at 18 dp, 1e-7 relative): gains, proceeds, costs, closing cost equal, "
             "quantities scaled; a SPLIT r/UNSPLIT r pair at an idle date changes nothing. "
             "A set-valued class covers splits on trade dates: the report must equal the post-split-units twin under at least one of the two readings (that date's other lines pre-split / post-split). One ledger in four (chosen by its hash) enters the library as DSL text in a random lexical style (keyword/currency/ticker case, spacing, comments, line endings) instead of as structs, so the parser-to-engine hand-over is inside the monitored path.",
        note="Accept/reject differences caused by ~1e-27-share residue after a non-terminating ratio are the known "
             "finding F3b; dust artefacts of the rounded twin itself are skipped and counted.",
        ref="DESIGN.md §3 C10"),
    "C11": dict(
        technique="runtime monitor: with/without metamorphic pairs and sign/size oracles on observed reports",
        text="One extra CAPRETURN/ACCUMULATION at an idle date must move sum(leg costs)+closing cost of that security "
             "by exactly +-net when shares are held and by 0 when none are, never touch another security or a leg "
             "identified with a later acquisition; equal ACCUMULATION+CAPRETURN cancel; a DIVIDEND changes dividend "
             "totals only; no leg/holding cost is negative; a return above the expenditure left (read from the tool's "
             "own prefix report) must be refused citing S122, one below it accepted. "
             "A labelled class puts SPLIT/UNSPLIT on trade dates and reads the holding from the matching pass's own day-end positions (H2); no leg drawn from acquisitions completely sold before the event may move. One ledger in four (chosen by its hash) enters the library as DSL text in a random lexical style (keyword/currency/ticker case, spacing, comments, line endings) instead of as structs, so the parser-to-engine hand-over is inside the monitored path. The added event quotes a quantity far above, around or below any holding and may be listed two or three times (identical lines are separate events: the cost must move by the sum).",
        note="The F6 family (adjustments attached to whole lots by share count; s122 test sized by a pre-pass that "
             "ignores 30-day identification and pool averaging) is recorded as open findings under narrow signatures; "
             "the never-sold class keeps the s122 test itself observable.",
        ref="DESIGN.md §3 C11, §4 F6"),
    "C12": dict(
        technique="runtime monitor: metamorphic prefix/extension comparison, bit-exact",
        text="Accepted prefix ledgers are extended by well-formed continuations starting 31 (boundary), 32, 35, 60 or "
             "400 days after the prefix's last date (some failing by themselves); every prefix disposal must reappear "
             "bit-identical, every tax year closed before the suffix must keep its whole summary, and a rejection must "
             "name a date in the suffix period. "
             "Year-restricted views under the embedded exemption table: a tax year closed before the continuation starts must still be produced, unchanged, for the grown ledger, also when the continuation reaches years the table does not cover. One ledger in four (chosen by its hash) enters the library as DSL text in a random lexical style (keyword/currency/ticker case, spacing, comments, line endings) instead of as structs, so the parser-to-engine hand-over is inside the monitored path.",
        note="Continuations contain no CAPRETURN/ACCUMULATION (excluded by the property).",
        ref="DESIGN.md §3 C12"),
    "C08": dict(
        technique="runtime monitor: differential oracle on converted figures (independent parse of the bundled HMRC XML), "
                  "literal pre-converted twins, missing-rate error observation, rate-folder configurations at the loader "
                  "and through the real CLI",
        text="Foreign-currency ledgers over every code of the bundled table (price and fees may differ in currency, dates "
             "straddling month ends) are compared with the exact model run on independently converted amounts and with "
             "literal GBP twins; absent rates (gap month 2015-12, before/after the table, code outside the table, no "
             "table) must yield MissingFxRate naming the currency and the transaction's own month; generated rate folders "
             "(override, add month, mislabelled, non-positive, empty) are loaded at the library boundary and through "
             "--fx-folder and every lookup around an override is checked for locality; the whole bundled table is compared key by key. "
             "A CLI-vs-library differential leg places the foreign amounts on any subset of line kinds (only trades, only dividends / accumulations / capital returns, only fees, one line). "
             "An exact-division leg: an amount that is an exact multiple of the month's rate must convert to exactly that multiple (read at full precision); rate folders also carry non-positive values on repeated rows of a currency.",
        note="Where the bundled data lists one currency twice in a month with different rates (XCD 2015-04) either rate is "
             "accepted. Two folder files for one month are not generated (precedence not in the property). MCP get_fx_rate "
             "is compared with the table by C20.",
        ref="DESIGN.md §3 C08"),
    "C13": dict(
        technique="runtime monitor: parser observed on enumerated and generated lexical variants rendered by an independent "
                  "renderer that knows the expected list; one-token corruptions with expected error line",
        text="Complete enumeration of single-transaction files over the variations the statement names (3,384 files), "
             "~10k random multi-line files of all seven kinds with random combinations of blank/comment lines, trailing "
             "comments, wide spacing, keyword/currency/ticker case, LF/CRLF/CR and missing final newline, and ~16k "
             "one-token corruptions (garbage keyword/number/date/currency, calendar-invalid date, signed or doubly-dotted "
             "number, deleted required token, duplicated clause, stray token) whose error must point at the corrupted line; "
             "sample through `cgt-tool parse`. "
             "Through the real `cgt-tool parse` the same text is also cut at line boundaries into several input files whose non-final parts may lack the final newline. "
             "An MCP leg sends the same variants through parse_transactions; generated comments carry backslash sequences that look like escapes.",
        note="Grammar leniencies (keyword glued to ticker, leading whitespace) are not treated as corruptions.",
        ref="DESIGN.md §3 C13, §4 F7"),
    "C14": dict(
        technique="runtime monitor: identity oracles on to_dsl/parse and to_json/from_json round trips and on reports of the "
                  "three renderings (library and CLI)",
        text="Random lists of all seven kinds with decimal literals of every scale 0-28 (incl. 2^96-1, trailing zeros, "
             "1e-28), every currency code the tool knows, keyword-/number-/currency-looking tickers and years 0001-9999 "
             "must survive DSL and JSON round trips field by field (mantissa and scale), writing must be idempotent, and "
             "report(structs) == report(DSL rendering) == report(JSON rendering) bit-exactly; CLI report/parse on the renderings. Workloads contain two or three textually identical neighbouring lines (an order filled in equal lots): every one of them must survive each path.",
        note="Only a zero FEES/TAX may lose its currency label (and scale). MCP parse/convert/calculate legs are in C20.",
        ref="DESIGN.md §3 C14"),
    "C18": dict(
        technique="runtime monitor: row-accounting oracle (independent expected-lines model) over converter output re-read by "
                  "the real parser; metamorphic row-order and chunking comparisons; CLI convert|parse|report",
        text="Generated Schwab exports (all supported and several unsupported actions, Schwab amount/date spellings, "
             "duplicates, cancels, hostile free text incl. line breaks and DSL-looking text, awards files) are converted and "
             "the emitted DSL parsed back: each Buy/Sell/RSU row must appear exactly once with its symbol/quantity/price/fees, "
             "cancels remove exactly one identical sell, dividend and same-day withholding totals per (date, symbol) are kept, "
             "every other row is counted/surfaced, no transaction without a row, dates non-decreasing; reversed/shuffled row "
             "order gives the same multiset; date-disjoint chunks reported together equal the whole.",
        note="Open finding F17 (withholding row with blank Symbol dropped silently; pinned by a repository test). Symbols are "
             "alphanumeric and quantities/prices non-negative, as the property restricts.",
        ref="DESIGN.md §3 C18, §4 F10/F11"),
    "C19": dict(
        technique="runtime monitor with an exhaustive sub-space: emitted BUY date/price compared with an independent award-"
                  "selection model",
        text="All 4,096 two-entry awards files on the grid gap x competitor gap in [-3,12] x price-field class x 4 boundary "
             "deposit dates, plus ~2.4k random awards files (1-5 entries, mixed-case symbols, non-vesting noise, entries after "
             "or >7 days before the deposit, no file): the BUY must be dated/priced from the exact-date entry or the nearest "
             "earlier one within 7 days, vest-specific value over fallback, and otherwise conversion must fail with "
             "MissingFairMarketValue naming symbol and date. "
             "Exports with several deposit rows (different symbols on one date, one symbol on several dates; each row identified by its own quantity) are judged row by row. Some deposit rows carry a Price/Amount of their own, which must never stand in for an awards entry.",
        note="Two entries offering one date: either value accepted (cross-entry precedence is not specified).",
        ref="DESIGN.md §3 C19"),
    "C15": dict(
        technique="runtime monitor: crash/exit/file-system observation (catch_unwind at the library boundary; exit status, "
                  "stdout, stderr and directory snapshots at the process boundary) under hostile inputs and fault sequences; "
                  "validator verdict compared with its stated predicate",
        text="~12k library calls per quick run on byte/token soup, mutated valid files, hostile but well-formed ledgers in a "
             "moderate regime (any panic is a violation) and an extreme regime (magnitudes to 7.9e28/1e-28), Schwab JSON soup; "
             "3k validator cases built as structs (negative/zero fields reachable); ~120 real cgt-tool runs over 16 fault "
             "classes (missing/directory/non-UTF-8 input, unwritable or pre-existing --output, pre-existing default PDF path, "
             "bad rate folder, absurd --year, /dev/full stdout): a failing run must exit non-zero without a panic, print "
             "nothing on stdout and leave every file untouched. "
             "Degenerate days (several zero / tiny lines of one security on one date) and RSU rows at the calendar extremes are directed classes; a library call or CLI run that stays silent for the watchdog three times in a row is reported as non-termination (bounded progress). A 'big echo' class puts 28-29 digit totals in currencies with 0/2/3/4 minor units on non-trade lines of a small GBP holding, so that the formatters (plain, PDF hook) get to print what the calculation survives (found F21).",
        note="Open finding F8 (rust_decimal overflow panic in the extreme regime) is matched on regime+library+kind; any other "
             "panic is reported. Hang detection is a wall-clock watchdog whose firing is inconclusive. MCP no-answer cases are C20's.",
        ref="DESIGN.md §3 C15, §4 F8/F14/F18, §10.2 F21"),
    "C16": dict(
        technique="runtime monitor: byte comparison of outputs across 16 fresh processes per input and command; H3 hook "
                  "recording/permuting every HashMap drain order at the library boundary; order predicates on every report",
        text="Ledgers with 4-50 securities, many disposals per date and 3-15 tax years: library runs record the pre-sort order "
             "of each HashMap drain (evidence: thousands of distinct orders seen per site) and are repeated under 8 seeded "
             "permutations of every drain - report, text and JSON must be identical and canonically ordered (years ascending, "
             "disposals by date then ticker, holdings by ticker, text-report transactions by date then ticker); report "
             "plain/json/pdf, parse and convert schwab are run 16 times each in fresh processes and compared byte for byte. "
             "Input lines arrive shuffled, chronological with arbitrary order inside a date, reverse-chronological or grouped by security; six fresh `cgt-tool mcp` servers are given the same tool calls (incl. the error answers that enumerate tickers) and must answer identically. "
             "Half of the CLI process inputs are given as three files. "
             "stderr (warnings) is compared across processes too, and each CLI command is also run with --output onto a fresh path and onto an existing longer file, which must end up byte-identical.",
        note="Only the converter's '# Converted:' timestamp is masked; PDF comparisons that straddle midnight are skipped.",
        ref="DESIGN.md §3 C16"),
    "C17": dict(
        technique="runtime monitor: every figure parsed back from the plain text, the JSON report and the PDF text runs (hook "
                  "H1) compared with the full-precision value observed at the library boundary",
        text="Workloads built so results sit exactly on half-pence midpoints, plus zero/negative results, amounts of 1e6-1e10 "
             "pounds, 6-9-decimal quantities and foreign-currency echoes: each monetary figure must be the computed value in "
             "full or rounded to pence half away from zero (GBP shape with thousands separators for pence figures), quantities "
             "exact (PDF: six decimals), dates DD/MM/YYYY, years YYYY/YY, and all three front ends must list the same years, "
             "disposals, legs, holdings and transactions. ~370k figures per quick run. "
             "The real `cgt-tool report` (plain and JSON, with and without --year, embedded table or all-years config) must print exactly what the library's formatters produce for the same ledger.",
        note="A figure recomputed here in exact rationals may differ by ~1e-27 from the tool's own Decimal sum; within 1e-13 of "
             "a midpoint but not on it either neighbouring penny is accepted. MCP figures are checked by C20. "
             "The PDF reader recognises the current template by its section titles, labels and per-table header rows; a document or table it does not recognise is not read and makes the run inconclusive (exit 2), never a violation.",
        ref="DESIGN.md §3 C17, §4 F9"),
    "C20": dict(
        technique="runtime monitor: offline checker over recorded JSON-RPC histories (exactly-once per id, liveness, exit "
                  "status) plus reference-answer comparison (sequential shuffled session, fresh processes) and per-tool oracles",
        text="Sessions of 5-120 requests over the five tools, list/read/ping, unknown tools and malformed arguments are sent in "
             "single-write bursts of 1-64 that mix multi-thousand-line ledgers with trivial calls (thousands of out-of-order "
             "completions observed per run); the history must contain exactly one response per id, no unknown ids or torn "
             "lines, the server must stay up until EOF and exit 0; every answer must equal the answer of a sequential, "
             "shuffled reference session and of fresh processes; calculate_report is compared with the library/CLI JSON "
             "report, explain_matching with the full-precision report for every explained disposal, get_fx_rate with the "
             "rate table, parse/convert outputs are re-read. "
             "Sessions under the embedded exemption table (no config file) with ledgers reaching outside it compare pipelined answers with a second server given the same requests one at a time, and with the library under the same table. "
             "Requests include dividends-only ledgers, and pool ledgers carry capital events after 30-day shapes. Deep sessions write 250-600 requests in ONE burst so that all of them are in flight at once (answers are always collected before the input is closed: closing stdin is MCP's shutdown signal and rmcp drops calculations still in flight at that moment, which the property does not forbid).",
        note="Open findings F12 (rmcp drops unknown methods / non-object arguments and exits on a non-JSON line) and F8 (overflow "
             "panic leaves one request unanswered) live in a labelled envelope class so the main sessions stay clean.",
        ref="DESIGN.md §3 C20, §4 F8/F12/F13"),
}

NOT_YET = {}


def main():
    props = [json.loads(l) for l in open(os.path.join(ROOT, "properties.jsonl"))]
    hooks_commits = subprocess.run(
        ["git", "-C", "/repo", "log", "--format=%h %s", "--grep", "^verif hook"],
        capture_output=True, text=True).stdout.strip().splitlines()
    checks = []
    na = []
    for p in props:
        pid = p["id"]
        if pid in CHECKS and os.path.exists(os.path.join(ROOT, "vf", "monitors", pid.lower() + ".py")):
            c = CHECKS[pid]
            checks.append({
                "property_id": pid,
                "quick_cmd": f"./check {pid} quick",
                "thorough_cmd": f"./check {pid} thorough",
                "evidence_file": f"/verif/evidence/{pid}.json",
                "replay_cmd_template": f"./check {pid} --replay {{path}}",
                "engine": "vf",
                "level_claimed": {"category": c.get("category", "exploration"), "text": c["text"],
                                  "design_ref": c["ref"]},
                "level_note": c["note"],
                "technique": c["technique"],
            })
        else:
            na.append({"property_id": pid,
                       "reason": NOT_YET.get(pid, "applicable, but its monitor is not built yet in this tree "
                                                  "(planned in DESIGN.md §3); not claimed until it is")})
    manifest = {
        "version": 1,
        "setup_cmd": "./check --setup",
        "hooks": {
            "guard": "cargo feature verif-hooks (crates cgt-core and cgt-formatter-pdf), off by default",
            "enable": "harness/Cargo.toml has a default feature `hooks` = [cgt-core/verif-hooks, cgt-formatter-pdf/verif-hooks]; "
                      "./check --setup builds the harness with it (release, offline) into /verif/.target; if /repo no longer "
                      "compiles with verif-hooks the harness is built with --no-default-features and hook-dependent clauses "
                      "are skipped (those checks then report inconclusive); the cgt-tool binary used at the process boundary "
                      "is always built WITHOUT the feature",
            "baseline_off_cmd": BASELINE_OFF,
            "source_commits": [c.split()[0] for c in hooks_commits],
            "add_only": True,
        },
        "engines": [
            {"name": "vf", "path": "/verif/vf",
             "serves_properties": [c["property_id"] for c in checks],
             "kind_free_text": "python3 (stdlib only) workload generators, exact-rational reference models and "
                               "monitors over observations of the real code: cgt-probe (Rust harness at the library "
                               "boundary, /verif/harness), the cgt-tool binary (process boundary) and `cgt-tool mcp` "
                               "(JSON-RPC histories)"},
        ],
        "checks": checks,
        "not_applicable": na,
        "notes": "Technique family: runtime monitoring. Verdicts are three-valued: exit 0 held on what was observed "
                 "(KNOWN-FINDING lines allowed), exit 1 + VIOLATION line, exit 2 inconclusive (coverage threshold not "
                 "met, harness/build error; never a VIOLATION line). VERIF_SEED selects the workload. "
                 "known_findings.json lists genuine defects (open or fixed).",
    }
    with open(os.path.join(ROOT, "MANIFEST.json"), "w") as f:
        json.dump(manifest, f, indent=1)
    print(f"MANIFEST.json: {len(checks)} checks, {len(na)} not claimed")


if __name__ == "__main__":
    main()
