#!/bin/bash
# Round 5: confirm, evaluate (scratch worktree, never /repo) and file both changes of one property.
# usage: tools/seed_r5_file.sh <PROP> <scratch-eval-worktree-name: ev|ev2> [mutations...]
prop=$1; ev=${2:-ev}; shift 2; ms=${@:-m1 m2}
declare -A NB=( [C01]="C01 C02 C06 C12" [C02]="C02 C01 C03 C05" [C03]="C03 C11 C04 C08" [C04]="C04 C07 C17 C09"
                [C05]="C05 C02 C15 C20" [C07]="C07 C04 C12 C20" [C10]="C10 C02 C03 C05" [C11]="C11 C03 C06 C10"
                [C14]="C14 C13 C20 C09" [C19]="C19 C18 C15 C16" )
for m in $ms; do
  [ -f /tmp/wt/$prop/mutations/$m/patch.diff ] || { echo "$prop $m: no patch.diff"; continue; }
  SEED_PREFIX=r5 SEED_EVAL=seed_eval_scratch.sh SCRATCH_WT=/tmp/wt/$ev VERIF_OUT_DIR=/tmp/seedout_$ev \
    /verif/tools/seed_process.sh $prop $m "${NB[$prop]}"
done
