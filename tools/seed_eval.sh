#!/bin/bash
# Apply one seeded change to /repo, run the given checks (default: all) at quick tier, undo the change.
# usage: tools/seed_eval.sh <patch.diff> [C01 C05 ...]
patch=$(readlink -f "$1"); shift
ids=${@:-$(seq -f "C%02g" 1 20)}
cd /repo || exit 2
if [ -n "$(git status --porcelain --untracked-files=no)" ]; then echo "/repo is dirty; refusing"; exit 2; fi
git apply --check "$patch" || { echo "patch does not apply"; exit 2; }
git apply "$patch"
trap 'git -C /repo checkout -- . ; (cd /verif && unset VERIF_OUT_DIR && ./check --setup >/dev/null 2>&1)' EXIT
export VERIF_OUT_DIR=${VERIF_OUT_DIR:-/tmp/seedout}
cd /verif
./check --setup >/dev/null 2>&1 || { echo "BUILD FAILED with patch"; exit 2; }
caught=""
for id in $ids; do
  out=$(VERIF_NO_BUILD=1 VERIF_SEED=${VERIF_SEED:-0} ./check $id quick 2>&1)
  rc=$?
  nv=$(echo "$out" | grep -c "^VIOLATION")
  echo "$id rc=$rc violations=$nv $(echo "$out" | grep "^  signature=" | cut -c1-150 | tr '\n' ';')"
  [ $rc -eq 1 ] && caught="$caught $id"
done
echo "CAUGHT_BY:$caught"
