#!/bin/bash
# Re-validate filed demonstrations in ONE scratch worktree outside /repo and /verif:
# for each seeded/<id>/ : demo on clean tree (expect exit 0), with patch applied (expect non-zero).
# usage: tools/seed_validate_demos.sh [ids...]   (default: all)
wt=/tmp/wt/val
cd /repo && git worktree add -q --detach $wt HEAD 2>/dev/null
[ -d $wt/target ] || cp -r /repo/target $wt/target
export CARGO_TARGET_DIR=$wt/target CARGO_NET_OFFLINE=true TMPDIR=$wt/tmp; mkdir -p $TMPDIR
ids=${@:-$(ls /verif/seeded)}
for id in $ids; do
  d=/verif/seeded/$id
  [ -f $d/demo/demo.sh ] || { echo "$id NO-DEMO"; continue; }
  m=${id#*-}
  cd $wt && git checkout -q -- . && rm -rf mutations && mkdir -p mutations/$m && cp -r $d/demo/. mutations/$m/ && cp $d/patch.diff mutations/$m/
  timeout 900 bash mutations/$m/demo.sh >/tmp/val_clean.log 2>&1; a=$?
  git apply $d/patch.diff 2>/dev/null || { echo "$id PATCH-DOES-NOT-APPLY"; continue; }
  timeout 900 bash mutations/$m/demo.sh >/tmp/val_patched.log 2>&1; b=$?
  git checkout -q -- .
  if [ $a -eq 0 ] && [ $b -ne 0 ]; then echo "$id OK (clean=0 patched=$b)"; else echo "$id BAD (clean=$a patched=$b) $(tail -2 /tmp/val_clean.log | tr '\n' ' ' | cut -c1-200)"; fi
done
cd /repo && git worktree remove --force $wt
