#!/bin/bash
# File and evaluate a sub-agent's BENIGN change (property-preserving, suite green): every check must stay silent.
# usage: tools/benign_eval.sh <Bk> <cN>      (reads /tmp/wt/<Bk>/changes/<cN>/)
b=$1; c=$2; src=/tmp/wt/$b/changes/$c; dest=/verif/benign/$b-$c
mkdir -p $dest; cp $src/patch.diff $dest/patch.diff; cp $src/README.md $dest/README.md 2>/dev/null
out=$(SCRATCH_WT=${SCRATCH_WT:-/tmp/wt/ev2} VERIF_OUT_DIR=/tmp/benignout /verif/tools/seed_eval_scratch.sh $dest/patch.diff 2>&1 | grep -v "^WARNING\|^KNOWN")
echo "$out" > $dest/eval.txt
echo "$b-$c: $(echo "$out" | grep -c 'rc=0') silent, non-silent: $(echo "$out" | grep 'rc=[12]' | cut -c1-160 | tr '\n' ';')"
