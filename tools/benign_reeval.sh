#!/bin/bash
# Re-run every filed benign change against all twenty checks with the current machinery (scratch worktree, /repo untouched).
cd "$(dirname "$0")/.."
for d in benign/*/; do
  id=$(basename $d)
  out=$(SCRATCH_WT=${SCRATCH_WT:-/tmp/wt/ev2} VERIF_OUT_DIR=/tmp/benignout tools/seed_eval_scratch.sh $d/patch.diff 2>&1 | grep -v "^WARNING\|^KNOWN")
  { echo; echo "-- re-evaluation with the final machinery:"; echo "$out"; } >> $d/eval.txt
  echo "$id: $(echo "$out" | grep -c 'rc=0') silent, non-silent: $(echo "$out" | grep 'rc=[12]' | cut -c1-200 | tr '\n' ';')"
done
