#!/bin/bash
# Confirm a seeded change in its scratch worktree: demo passes without the patch, fails with it, and the
# whole existing suite passes with it. usage: tools/seed_confirm.sh <worktree> <mutation-dir-name>
wt=$1; m=$2
cd "$wt" || exit 2
export CARGO_TARGET_DIR=$wt/target CARGO_NET_OFFLINE=true TMPDIR=$wt/tmp; mkdir -p $wt/tmp
git checkout -q -- . 
echo "== demo without patch"; bash mutations/$m/demo.sh >/tmp/seed_demo_clean.log 2>&1; echo "exit $?"
git apply mutations/$m/patch.diff || { echo "patch does not apply"; exit 2; }
echo "== demo with patch"; bash mutations/$m/demo.sh >/tmp/seed_demo_patched.log 2>&1; echo "exit $?"
echo "== suite with patch"; cargo nextest run --workspace --offline --no-fail-fast --test-threads 8 2>&1 | tail -2
git checkout -q -- .
