#!/bin/bash
# Multi-seed silence check: every check at several seeds; prints only what is not a clean pass.
# usage: tools/soak.sh <tier> <first_seed> <last_seed>
tier=${1:-quick}; a=${2:-11}; b=${3:-20}
cd "$(dirname "$0")/.."
./check --setup >/dev/null 2>&1 || { echo "setup failed"; exit 2; }
export VERIF_OUT_DIR=${VERIF_OUT_DIR:-$(pwd)/soak_out}
bad=0
for seed in $(seq $a $b); do
  for i in $(seq -w 1 20); do
    id="C$i"
    out=$(VERIF_NO_BUILD=1 VERIF_SEED=$seed ./check $id $tier 2>&1); rc=$?
    if [ $rc -ne 0 ]; then
      bad=$((bad+1))
      echo "### seed=$seed $id rc=$rc"
      echo "$out" | grep -v "^  observed\|^KNOWN\|^WARNING" | cut -c1-600 | head -40
    fi
  done
  echo "seed $seed done (non-clean so far: $bad)"
done
echo "SOAK FINISHED non-clean=$bad"
