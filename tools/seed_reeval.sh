#!/bin/bash
# Re-run checks against a filed seeded change and refresh its meta.json. usage: tools/seed_reeval.sh <seeded/dir> "<checks>"
d=$(readlink -f $1); checks=$2
ev=$(/verif/tools/seed_eval.sh $d/patch.diff $checks 2>&1 | grep -v "^WARNING")
echo "$ev" | tail -4
python3 - "$d" "$ev" "$checks" <<'PY'
import json, sys, re
d, ev, checks = sys.argv[1:4]
m = json.load(open(d + "/meta.json"))
caught = re.search(r"CAUGHT_BY:(.*)", ev)
res = {l.split()[0]: l for l in ev.splitlines() if re.match(r"^C\d\d ", l)}
prev = {l.split()[0]: l for l in m.get("check_output", [])}
prev.update(res)
m["check_output"] = [prev[k] for k in sorted(prev)]
m["checks_run"] = sorted(prev)
m["caught_by"] = sorted(k for k, l in prev.items() if " rc=1 " in l)
json.dump(m, open(d + "/meta.json", "w"), indent=1)
print("caught_by", m["caught_by"])
PY
