#!/bin/bash
# Like seed_eval.sh but never touches /repo: applies the change in the scratch worktree /tmp/wt/ev (created on
# demand, kept between calls for incremental builds; remove with `git -C /repo worktree remove --force /tmp/wt/ev`)
# and builds harness + CLI from there into /tmp/wt/ev/verif-target.
# usage: tools/seed_eval_scratch.sh <patch.diff> [C01 C05 ...]
patch=$(readlink -f "$1"); shift
ids=${@:-$(seq -f "C%02g" 1 20)}
wt=${SCRATCH_WT:-/tmp/wt/ev}
[ -d $wt ] || git -C /repo worktree add -q --detach $wt HEAD
cd $wt || exit 2
git checkout -q -- . ; git checkout -q --detach $(git -C /repo rev-parse HEAD)
git apply --check "$patch" || { echo "patch does not apply"; exit 2; }
git apply "$patch"
trap 'git -C '$wt' checkout -q -- .' EXIT
export VERIF_SCRATCH_REPO=$wt VERIF_SCRATCH_TARGET=$wt/verif-target VERIF_OUT_DIR=${VERIF_OUT_DIR:-/tmp/seedout}
cd /verif
./check --setup >/tmp/seed_eval_scratch_build.log 2>&1 || { echo "BUILD FAILED with patch"; tail -5 /tmp/seed_eval_scratch_build.log; exit 2; }
caught=""
for id in $ids; do
  out=$(VERIF_NO_BUILD=1 VERIF_SEED=${VERIF_SEED:-0} ./check $id quick 2>&1)
  rc=$?
  nv=$(echo "$out" | grep -c "^VIOLATION")
  echo "$id rc=$rc violations=$nv $(echo "$out" | grep "^  signature=" | cut -c1-150 | tr '\n' ';')"
  [ $rc -eq 1 ] && caught="$caught $id"
done
echo "CAUGHT_BY:$caught"
