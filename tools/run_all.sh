#!/bin/bash
# Run every registered check once (tier $1, default quick) and print one summary line per property.
tier=${1:-quick}
cd "$(dirname "$0")/.."
./check --setup >/dev/null 2>&1 || { echo "setup failed"; exit 2; }
for i in $(seq -w 1 20); do
  id="C$i"
  start=$(date +%s)
  out=$(VERIF_NO_BUILD=1 ./check $id $tier 2>&1)
  rc=$?
  end=$(date +%s)
  v=$(echo "$out" | grep -c "^VIOLATION")
  k=$(echo "$out" | grep -c "^KNOWN-FINDING")
  inc=$(echo "$out" | grep -c "^INCONCLUSIVE")
  echo "$id rc=$rc violations=$v known=$k inconclusive=$inc wall=$((end-start))s"
  if [ $rc -ne 0 ]; then echo "$out" | grep -v "^  observed" | grep -v "^KNOWN" | cut -c1-400 | head -15; fi
done
