#!/bin/bash
# For several seeds, run every quick check into a scratch out dir and report, per check, the smallest
# observed/threshold ratio (a ratio near 1 means the threshold can fail by chance -> exit 2 on a clean tree).
# usage: tools/threshold_audit.sh <first_seed> <last_seed>
cd "$(dirname "$0")/.."
./check --setup >/dev/null 2>&1
for seed in $(seq $1 $2); do
  for i in $(seq -w 1 20); do
    VERIF_NO_BUILD=1 VERIF_SEED=$seed VERIF_OUT_DIR=/tmp/thr/$seed ./check C$i quick >/dev/null 2>&1
  done
done
python3 - "$1" "$2" <<'PY'
import json,sys,importlib
sys.path.insert(0,'.')
lo,hi=int(sys.argv[1]),int(sys.argv[2])
for i in range(1,21):
    pid=f"C{i:02d}"
    mod=importlib.import_module(f"vf.monitors.{pid.lower()}")
    worst=(None,1e9,None)
    for seed in range(lo,hi+1):
        try: e=json.load(open(f"/tmp/thr/{seed}/evidence/{pid}.json"))
        except Exception as ex: print(pid,seed,"no evidence"); continue
        c=e["coverage"]; cnt=c.get("counters",c)
        for k,t in mod.THRESHOLDS.items():
            v=cnt.get(k,0)
            r=v/t if t else 1e9
            if r<worst[1]: worst=(k,r,seed)
    print(f"{pid}: tightest threshold {worst[0]} observed/required = {worst[1]:.2f} (seed {worst[2]})")
PY
